// key_rcp: design-time helper: number of IMUL_RCP instructions in the eight SuperscalarHash programs of candidate keys
// (used to pick the key pair of apiscen.KEYSETS whose second key makes the cache's reciprocal table grow)
#include "vh.hpp"
#include "superscalar.hpp"
#include "blake2_generator.hpp"
#include <string>
using namespace randomx;
int main(int argc, char** argv) {
	int n = atoi(vh::arg(argc, argv, "--n", "3000"));
	for (int k = 0; k < n; ++k) {
		std::string key = "rcp key " + std::to_string(k);
		Blake2Generator gen(key.data(), key.size());
		SuperscalarProgram p; int rcp = 0;
		for (int i = 0; i < 8; ++i) { generateSuperscalar(p, gen); for (unsigned j = 0; j < p.getSize(); ++j) if ((SuperscalarInstructionType)p(j).opcode == SuperscalarInstructionType::IMUL_RCP) ++rcp; }
		printf("%s %d\n", key.c_str(), rcp);
	}
	return 0;
}
