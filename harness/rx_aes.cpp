// C12 binding harness: drives soft/hard AES rounds, AesGenerator1R/4R, AesHash1R and the combined
// fingerprint-and-refill step on seeded inputs; records inputs and outputs (no oracle here).
// usage: rx_aes --seed N --tier quick|thorough --out FILE
#include "vh.hpp"
#include <sys/mman.h>
#include "aes_hash.hpp"
#include "soft_aes.h"
#include "intrin_portable.h"
#include <memory>

using namespace vh;
static FILE* out;

static void round_ev(const uint8_t* s, const uint8_t* k) {
	for (int dec = 0; dec < 2; ++dec) {
		rx_vec_i128 vs = rx_load_vec_i128((const rx_vec_i128*)s), vk = rx_load_vec_i128((const rx_vec_i128*)k);
		rx_vec_i128 so = dec ? soft_aesdec(vs, vk) : soft_aesenc(vs, vk);
		rx_vec_i128 ha = dec ? rx_aesdec_vec_i128(vs, vk) : rx_aesenc_vec_i128(vs, vk);
		alignas(16) uint8_t a[16], b[16];
		rx_store_vec_i128((rx_vec_i128*)a, so); rx_store_vec_i128((rx_vec_i128*)b, ha);
		Line l; l.str("e", "round").str("kind", dec ? "dec" : "enc").limbs("s", s, 16).limbs("k", k, 16).limbs("soft", a, 16).limbs("hard", b, 16);
		l.emit(out);
	}
}

// output buffers are followed by 128 canary bytes: a routine asked for n bytes must not write more
struct Buf { uint8_t* p; size_t n; Buf(size_t n_) : n(n_) { p = (uint8_t*)aligned_alloc(64, ((n + 63) & ~(size_t)63) + 128); memset(p + n, 0xC5, 128); } ~Buf() { free(p); }
	bool intact() const { for (size_t i = 0; i < 128; ++i) if (p[n + i] != 0xC5) return false; return true; } };

static void fill_ev(Rng& rng, bool four, size_t nblocks) {
	alignas(16) uint8_t st[64], s1[64], s2[64];
	rng.fill(st, 64); memcpy(s1, st, 64); memcpy(s2, st, 64);
	Buf o1(64 * nblocks), o2(64 * nblocks);
	if (four) { fillAes4Rx4<true>(s1, 64 * nblocks, o1.p); fillAes4Rx4<false>(s2, 64 * nblocks, o2.p); }
	else { fillAes1Rx4<true>(s1, 64 * nblocks, o1.p); fillAes1Rx4<false>(s2, 64 * nblocks, o2.p); }
	Line l; l.str("e", four ? "fill4" : "fill1").num("n", (long long)nblocks).limbs("state", st, 64)
		.limbs("soft_out", o1.p, 64 * nblocks).limbs("hard_out", o2.p, 64 * nblocks).limbs("soft_state", s1, 64).limbs("hard_state", s2, 64).boolean("guard", o1.intact() && o2.intact());
	l.emit(out);
}

static void hash_ev(Rng& rng, size_t nblocks, int pattern) {
	Buf in(64 * nblocks);
	if (pattern == 0) rng.fill(in.p, in.n); else memset(in.p, pattern == 1 ? 0 : 0xff, in.n);
	alignas(16) uint8_t h1[64], h2[64];
	hashAes1Rx4<true>(in.p, in.n, h1); hashAes1Rx4<false>(in.p, in.n, h2);
	Line l; l.str("e", "hash1").limbs("input", in.p, in.n).limbs("soft", h1, 64).limbs("hard", h2, 64);
	l.emit(out);
}

static void hashfill_ev(Rng& rng, size_t nblocks) {
	Buf sp(64 * nblocks), a(64 * nblocks), b(64 * nblocks);
	rng.fill(sp.p, sp.n); memcpy(a.p, sp.p, sp.n); memcpy(b.p, sp.p, sp.n);
	alignas(16) uint8_t fill[64], f1[64], f2[64], h1[64], h2[64];
	rng.fill(fill, 64); memcpy(f1, fill, 64); memcpy(f2, fill, 64);
	hashAndFillAes1Rx4<true>(a.p, a.n, h1, f1); hashAndFillAes1Rx4<false>(b.p, b.n, h2, f2);
	Line l; l.str("e", "hashfill").limbs("sp", sp.p, sp.n).limbs("fill", fill, 64)
		.limbs("soft_hash", h1, 64).limbs("hard_hash", h2, 64).limbs("soft_sp", a.p, a.n).limbs("hard_sp", b.p, b.n)
		.limbs("soft_fill", f1, 64).limbs("hard_fill", f2, 64).boolean("guard", a.intact() && b.intact());
	l.emit(out);
}

// a 2 GiB (+ k blocks) input of zero pages: sizes that do not fit a signed / unsigned 32-bit integer.  The fingerprint cannot be
// recomputed by the specification (2^25 blocks); recorded are the fingerprint, the fingerprint of the empty input and the one of the
// input truncated to (size mod 2^32) bytes, which a 32-bit length would produce
static void huge_hash(size_t bytes, bool alsoSoft) {
	uint8_t* z = (uint8_t*)mmap(nullptr, bytes, PROT_READ, MAP_PRIVATE | MAP_ANONYMOUS | MAP_NORESERVE, -1, 0);
	if (z == MAP_FAILED) return;
	alignas(16) uint8_t hh[64], hs[64], he[64], ht[64];
	hashAes1Rx4<false>(z, bytes, hh);
	if (alsoSoft) hashAes1Rx4<true>(z, bytes, hs);
	hashAes1Rx4<false>(z, 0, he);
	hashAes1Rx4<false>(z, (size_t)(uint32_t)bytes, ht);
	Line l; l.str("e", "hugehash").num("sizeHigh", (long long)(bytes >> 32)).num("sizeLow31", (long long)(bytes & 0x7fffffffu)).boolean("bit31", (bytes >> 31) & 1)
		.limbs("hard", hh, 64).limbs("empty", he, 64).limbs("trunc", ht, 64).boolean("hasSoft", alsoSoft);
	if (alsoSoft) l.limbs("soft", hs, 64);
	l.emit(out);
	munmap(z, bytes);
}

// the four routines called DURING STATIC INITIALISATION of this program (this object file precedes the library on the link line): they
// must already be fully functional then; the results are emitted as ordinary events from main
struct EarlyCalls {
	uint8_t st[64], s1[64], o1[128], hin[128], h1[64], sp[128], a[128], fill[64], f1[64], g1[64];
	EarlyCalls() {
		for (int i = 0; i < 64; ++i) { st[i] = (uint8_t)(i * 3 + 1); fill[i] = (uint8_t)(200 - i); } for (int i = 0; i < 128; ++i) { hin[i] = (uint8_t)(i ^ 0x5a); sp[i] = (uint8_t)(i * 11); }
		memcpy(s1, st, 64); fillAes1Rx4<true>(s1, 128, o1);
		hashAes1Rx4<true>(hin, 128, h1);
		memcpy(a, sp, 128); memcpy(f1, fill, 64); hashAndFillAes1Rx4<true>(a, 128, g1, f1);
	}
};
static EarlyCalls g_early;
static void early_events() {
	{ Line l; l.str("e", "fill1").num("n", 2).limbs("state", g_early.st, 64).limbs("soft_out", g_early.o1, 128).limbs("hard_out", g_early.o1, 128).limbs("soft_state", g_early.s1, 64).limbs("hard_state", g_early.s1, 64).str("when", "static-init"); l.emit(out); }
	{ Line l; l.str("e", "hash1").limbs("input", g_early.hin, 128).limbs("soft", g_early.h1, 64).limbs("hard", g_early.h1, 64).str("when", "static-init"); l.emit(out); }
	{ Line l; l.str("e", "hashfill").limbs("sp", g_early.sp, 128).limbs("fill", g_early.fill, 64).limbs("soft_hash", g_early.g1, 64).limbs("hard_hash", g_early.g1, 64).limbs("soft_sp", g_early.a, 128).limbs("hard_sp", g_early.a, 128)
		.limbs("soft_fill", g_early.f1, 64).limbs("hard_fill", g_early.f1, 64).str("when", "static-init"); l.emit(out); }
}

static long long diffcount(const uint8_t* a, const uint8_t* b, size_t n) { long long d = 0; for (size_t i = 0; i < n; ++i) d += a[i] != b[i]; return d; }

// full-size generator run: software vs hardware difference count + sampled local links
static void big_fill(Rng& rng, bool four, size_t bytes, int samples) {
	alignas(16) uint8_t st[64], s1[64], s2[64];
	rng.fill(st, 64); memcpy(s1, st, 64); memcpy(s2, st, 64);
	Buf o1(bytes), o2(bytes);
	if (four) { fillAes4Rx4<true>(s1, bytes, o1.p); fillAes4Rx4<false>(s2, bytes, o2.p); }
	else { fillAes1Rx4<true>(s1, bytes, o1.p); fillAes1Rx4<false>(s2, bytes, o2.p); }
	{ Line l; l.str("e", "same").str("what", four ? "fill4 out+state" : "fill1 out+state").num("bytes", (long long)bytes)
		.num("diff", diffcount(o1.p, o2.p, bytes) + diffcount(s1, s2, 64)); l.emit(out); }
	size_t nb = bytes / 64;
	auto link = [&](const uint8_t* prev, const uint8_t* next, long long j) {
		Line l; l.str("e", "chain").num("gen", four ? 4 : 1).num("j", j).limbs("prev", prev, 64).limbs("next", next, 64); l.emit(out);
	};
	link(st, o1.p, 0);                                   // seed -> block 0
	link(o1.p + 64 * (nb - 2), o1.p + 64 * (nb - 1), (long long)nb - 1);
	if (!four) link(o1.p + 64 * (nb - 2), s1, -1);       // 1R: final state == last block (same link)
	for (int i = 0; i < samples; ++i) { size_t j = 1 + rng.below((uint32_t)nb - 1); link(o1.p + 64 * (j - 1), o1.p + 64 * j, (long long)j); }
}

static void big_hash(Rng& rng, size_t bytes, bool record_input) {
	Buf in(bytes), a(bytes), b(bytes); rng.fill(in.p, bytes);
	alignas(16) uint8_t h1[64], h2[64], f1[64], f2[64], fill[64];
	hashAes1Rx4<true>(in.p, bytes, h1); hashAes1Rx4<false>(in.p, bytes, h2);
	{ Line l; l.str("e", "same").str("what", "hash1").num("bytes", (long long)bytes).num("diff", diffcount(h1, h2, 64)); l.emit(out); }
	memcpy(a.p, in.p, bytes); memcpy(b.p, in.p, bytes); rng.fill(fill, 64); memcpy(f1, fill, 64); memcpy(f2, fill, 64);
	alignas(16) uint8_t g1[64], g2[64];
	hashAndFillAes1Rx4<true>(a.p, bytes, g1, f1); hashAndFillAes1Rx4<false>(b.p, bytes, g2, f2);
	// combined step vs separate functions on the full size: measured differences (specification demands 0)
	Buf sep(bytes); alignas(16) uint8_t fs[64]; memcpy(fs, fill, 64); fillAes1Rx4<true>(fs, bytes, sep.p);
	{ Line l; l.str("e", "same").str("what", "hashfill soft vs hard").num("bytes", (long long)bytes)
		.num("diff", diffcount(g1, g2, 64) + diffcount(a.p, b.p, bytes) + diffcount(f1, f2, 64)); l.emit(out); }
	{ Line l; l.str("e", "same").str("what", "hashfill vs (hash1, fill1)").num("bytes", (long long)bytes)
		.num("diff", diffcount(g1, h1, 64) + diffcount(a.p, sep.p, bytes) + diffcount(f1, fs, 64)); l.emit(out); }
	if (record_input) { Line l; l.str("e", "hash1").limbs("input", in.p, bytes).limbs("soft", h1, 64).limbs("hard", h2, 64); l.emit(out); }
}

int main(int argc, char** argv) {
	uint64_t seed = strtoull(arg(argc, argv, "--seed", "1"), nullptr, 10);
	bool thorough = !strcmp(arg(argc, argv, "--tier", "quick"), "thorough");
	out = fopen(arg(argc, argv, "--out", "/dev/stdout"), "w");
	if (!out) return 2;
	Rng rng(seed);
	// --first combined: the combined hash-and-fill step is the FIRST AES routine this process runs (nothing else has been called that
	// could have prepared state for it)
	early_events();
	if (!strcmp(arg(argc, argv, "--first", ""), "combined")) { hashfill_ev(rng, 2); hashfill_ev(rng, 1); hashfill_ev(rng, 5); fill_ev(rng, true, 1); fclose(out); return 0; }
	if (!strcmp(arg(argc, argv, "--first", ""), "fill4")) { fill_ev(rng, true, 2); hash_ev(rng, 2, 0); fclose(out); return 0; }

	// T-tables
	for (int dec = 0; dec < 2; ++dec) for (int i = 0; i < 4; ++i) {
		Line l; l.str("e", "lut").str("kind", dec ? "dec" : "enc").num("i", i);
		std::string t = "[";
		for (int x = 0; x < 256; ++x) { uint32_t v = dec ? randomx_aes_lut_dec[i][x] : randomx_aes_lut_enc[i][x]; if (x) t += ","; t += json_bytes(&v, 4); }
		t += "]"; l.raw("tab", t); l.emit(out);
	}
	// single rounds: boundary and random (state,key)
	alignas(16) uint8_t s[16], k[16];
	memset(s, 0, 16); memset(k, 0, 16); round_ev(s, k);
	memset(s, 0xff, 16); round_ev(s, k);
	for (int i = 0; i < 16; ++i) { memset(s, 0, 16); s[i] = 1; round_ev(s, k); }      // one byte set: exercises every table lane
	for (int i = 0; i < 16; ++i) { for (int j = 0; j < 16; ++j) s[j] = (uint8_t)(i * 16 + j); rng.fill(k, 16); round_ev(s, k); } // all 256 byte values
	for (int i = 0; i < (thorough ? 3000 : 200); ++i) { rng.fill(s, 16); rng.fill(k, 16); round_ev(s, k); }
	// generators and hash, small sizes: complete recomputation by the specification
	for (size_t n = 1; n <= 8; ++n) { fill_ev(rng, false, n); fill_ev(rng, true, n); hash_ev(rng, n, 0); hashfill_ev(rng, n); }
	fill_ev(rng, true, 50);            // 3200 bytes: exactly the program buffer size
	fill_ev(rng, false, 0); fill_ev(rng, true, 0); hash_ev(rng, 0, 0);       // nothing requested: nothing written
	hash_ev(rng, 3, 1); hash_ev(rng, 3, 2);
	for (int i = 0; i < (thorough ? 40 : 6); ++i) { size_t n = 1 + rng.below(thorough ? 64 : 24); fill_ev(rng, false, n); fill_ev(rng, true, n); hash_ev(rng, n, 0); hashfill_ev(rng, n); }
	// full sizes: soft == hard, local chain links, combined == separate
	big_fill(rng, false, 2097152, thorough ? 400 : 40);
	big_fill(rng, true, 3200, 10);
	big_fill(rng, true, 2097152, thorough ? 100 : 10);
	big_hash(rng, 2097152, thorough);
	big_hash(rng, 65536, true);
	// sizes of 2^31 and 2^32 bytes and beyond (hardware AES; the software path too in the thorough tier)
#if defined(__AES__)
	huge_hash((size_t)1 << 31, thorough);
	huge_hash(((size_t)1 << 32) + 64 * (1 + rng.below(1000)), false);
#endif
	fclose(out);
	return 0;
}
