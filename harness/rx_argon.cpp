// rx_argon: C10 binding harness. Drives the Argon2 fill entry points of the library
//  (a) on reduced instances (m = 8,16,32 blocks, t = 1..3) completely, for each of ref / SSSE3 / AVX2,
//  (b) on the full 256 MiB instance segment by segment, recording (prev, ref, old, new) block tuples at
//      sampled positions, plus difference counts between the three implementations, between
//      randomx_init_cache and the manual fill, and after re-keying a cache.
// No oracle here.   usage: rx_argon --seed S --tier T --out FILE
#include "vh.hpp"
#include "randomx.h"
#include "argon2.h"
#include "argon2_core.h"
#include "dataset.hpp"
#include <vector>
#include <string>
#include <cstring>

using namespace vh;
static FILE* out;
static const char SALT[] = RANDOMX_ARGON_SALT;

static randomx_argon2_impl* impl_of(int k) { return k == 0 ? &randomx_argon2_fill_segment_ref : (k == 1 ? randomx_argon2_impl_ssse3() : randomx_argon2_impl_avx2()); }
static const char* impl_name(int k) { return k == 0 ? "ref" : (k == 1 ? "ssse3" : "avx2"); }

struct Inst { argon2_instance_t instance; argon2_context context; };
static void setup(Inst& I, block* mem, uint32_t m, uint32_t t, const std::vector<uint8_t>& key, randomx_argon2_impl* impl) {
	argon2_context& c = I.context; memset(&c, 0, sizeof c);
	c.out = nullptr; c.outlen = 0; c.pwd = (uint8_t*)key.data(); c.pwdlen = (uint32_t)key.size();
	c.salt = (uint8_t*)SALT; c.saltlen = (uint32_t)(sizeof(SALT) - 1); c.secret = nullptr; c.secretlen = 0; c.ad = nullptr; c.adlen = 0;
	c.t_cost = t; c.m_cost = m; c.lanes = 1; c.threads = 1; c.allocate_cbk = nullptr; c.free_cbk = nullptr; c.flags = ARGON2_DEFAULT_FLAGS; c.version = ARGON2_VERSION_NUMBER;
	argon2_instance_t& in = I.instance; memset(&in, 0, sizeof in);
	in.version = c.version; in.memory = mem; in.passes = t; in.memory_blocks = m; in.segment_length = m / 4; in.lane_length = m; in.lanes = 1; in.threads = 1; in.type = Argon2_d; in.impl = impl;
}

static void reduced(Rng& rng, uint32_t m, uint32_t t, size_t klen) {
	std::vector<uint8_t> key = rng.bytes(klen);
	for (int k = 0; k < 3; ++k) {
		randomx_argon2_impl* impl = impl_of(k); if (!impl) continue;
		std::vector<block> mem(m); memset(mem.data(), 0x5A, m * sizeof(block));      // heap contents must not matter
		Inst I; setup(I, mem.data(), m, t, key, impl);
		randomx_argon2_initialize(&I.instance, &I.context);
		randomx_argon2_fill_memory_blocks(&I.instance);
		Line l; l.str("e", "argon").str("impl", impl_name(k)).num("m", m).num("t", t).bytes("key", key).bytes("salt", SALT, sizeof(SALT) - 1).limbs("mem", mem.data(), m * sizeof(block));
		l.emit(out);
	}
}

static long long diffblocks(const block* a, const block* b, size_t n) { long long d = 0; for (size_t i = 0; i < n; ++i) d += memcmp(&a[i], &b[i], sizeof(block)) != 0; return d; }

int main(int argc, char** argv) {
	uint64_t seed = strtoull(arg(argc, argv, "--seed", "1"), nullptr, 10);
	bool thorough = !strcmp(arg(argc, argv, "--tier", "quick"), "thorough");
	std::string part = arg(argc, argv, "--part", "all");
	out = fopen(arg(argc, argv, "--out", "/dev/stdout"), "w");
	Rng rng(seed);
	if (part == "reduced" || part == "all") {
		reduced(rng, 8, 1, 0); reduced(rng, 8, 3, 12); reduced(rng, 16, 2, 65);
		// key lengths around the 128-byte block boundaries of the streamed initial hash (28 bytes of parameters precede the key)
		reduced(rng, 8, 1, 79); reduced(rng, 8, 1, 80); reduced(rng, 8, 1, 81); reduced(rng, 8, 1, 88); reduced(rng, 8, 1, 89); reduced(rng, 8, 1, 100); reduced(rng, 8, 1, 101); reduced(rng, 8, 1, 208); reduced(rng, 8, 1, 229);
		if (thorough) { reduced(rng, 8, 257, 5);      /* more than 256 passes: the pass number does not fit a byte */ reduced(rng, 8, 2, 1); reduced(rng, 16, 3, 128); reduced(rng, 32, 3, 300); reduced(rng, 32, 1, 63); reduced(rng, 16, 1, 64); }
	}
	if (part == "full" || part == "all") {
		const uint32_t m = RANDOMX_ARGON_MEMORY, t = RANDOMX_ARGON_ITERATIONS, seg = m / 4;
		std::vector<uint8_t> key = rng.bytes(8 + rng.below(73)); key[2] = 0;      // (a key with an embedded NUL)
		block* mem[3] = { nullptr, nullptr, nullptr };
		int nsamples = thorough ? 10 : 3;
		for (int k = 0; k < 3; ++k) {
			randomx_argon2_impl* impl = impl_of(k); if (!impl) continue;
			mem[k] = (block*)aligned_alloc(64, (size_t)m * sizeof(block));
			memset(mem[k], k == 0 ? 0x00 : 0xA5, (size_t)m * sizeof(block));
			Inst I; setup(I, mem[k], m, t, key, impl);
			randomx_argon2_initialize(&I.instance, &I.context);
			std::vector<block> snap(seg);
			for (uint32_t pass = 0; pass < t; ++pass) for (uint32_t slice = 0; slice < 4; ++slice) {
				bool sample = (k == 0) || ((pass * 4 + slice + k) % 3 == 0);
				if (sample) memcpy(snap.data(), mem[k] + (size_t)slice * seg, (size_t)seg * sizeof(block));
				argon2_position_t pos = { pass, 0, (uint8_t)slice, 0 };
				impl(&I.instance, pos);
				if (!sample) continue;
				for (int s = 0; s < nsamples; ++s) {
					uint32_t first = (pass == 0 && slice == 0) ? 2 : 0;
					uint32_t index = s == 0 ? first : (s == 1 ? seg - 1 : first + rng.below(seg - first));
					uint32_t cur = slice * seg + index, prev = cur == 0 ? m - 1 : cur - 1;
					argon2_position_t p2 = { pass, 0, (uint8_t)slice, index };
					uint32_t j1 = (uint32_t)(mem[k][prev].v[0] & 0xFFFFFFFFu);
					uint32_t ref = randomx_argon2_index_alpha(&I.instance, &p2, j1, 1);
					// blocks of the current segment before `cur` are final; later ones still hold `snap`
					const block* refb = (ref >= slice * seg && ref < (slice + 1) * seg && ref > cur) ? &snap[ref - slice * seg] : &mem[k][ref];
					Line l; l.str("e", "ablock").str("impl", impl_name(k)).num("pass", pass).num("slice", slice).num("index", index).num("m", m).num("prevIdx", prev).num("refIdx", ref)
						.limbs("prev", &mem[k][prev], sizeof(block)).limbs("ref", refb, sizeof(block)).limbs("old", &snap[index], sizeof(block)).limbs("new", &mem[k][cur], sizeof(block));
					l.emit(out);
				}
			}
		}
		for (int k = 1; k < 3; ++k) if (mem[k]) { Line l; l.str("e", "same").str("what", std::string("full fill ref vs ") + impl_name(k)).num("diff", diffblocks(mem[0], mem[k], m)); l.emit(out); }
		// the public path: randomx_init_cache (each Argon2 flag) equals the manual reference fill; re-keying leaves no trace
		const randomx_flags fl[3] = { RANDOMX_FLAG_DEFAULT, RANDOMX_FLAG_ARGON2_SSSE3, RANDOMX_FLAG_ARGON2_AVX2 };
		for (int k = 0; k < 3; ++k) {
			randomx_cache* c = randomx_alloc_cache(fl[k]); if (!c) continue;
			// the previous key is related to the final one: same length and equal up to and beyond the NUL except for the last byte /
			// the final key is a proper prefix of it / unrelated
			std::vector<uint8_t> key2 = key;
			if (k == 0) key2.back() ^= 0x55; else if (k == 1) { key2.push_back(7); key2.push_back(0); key2.push_back(9); } else key2 = rng.bytes(1 + rng.below(80));
			randomx_init_cache(c, key2.data(), key2.size());        // first another key ...
			randomx_init_cache(c, key.data(), key.size());          // ... then re-keyed to `key`
			{ Line l; l.str("e", "same").str("what", std::string("init_cache (re-keyed) vs manual ref fill, ") + impl_name(k)).num("diff", diffblocks((block*)randomx_get_cache_memory(c), mem[0], m)); l.emit(out); }
			randomx_release_cache(c);
		}
		for (int k = 0; k < 3; ++k) free(mem[k]);
	}
	fclose(out);
	return 0;
}
