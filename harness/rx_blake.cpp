// C11 binding harness: drives the bundled Blake2b (one-shot, streaming, blake2b_long) and
// randomx_calculate_commitment on seeded and boundary inputs and records every call as ndjson.
// usage: rx_blake --seed N --tier quick|thorough --out FILE
#include "vh.hpp"
#include <sys/mman.h>
#include "blake2/blake2.h"
#include "randomx.h"
#include <algorithm>

using namespace vh;

static const size_t CAP = 72; // canary-filled output buffer
static FILE* out;

static void oneshot(Rng& rng, size_t inlen, size_t outlen, size_t keylen, bool inNull, bool outNull, bool keyNull) {
	std::vector<uint8_t> msg = rng.bytes(inlen), key = rng.bytes(keylen);
	uint8_t buf[CAP]; memset(buf, 0xAA, CAP);
	int rc = blake2b(outNull ? nullptr : buf, outlen, inNull ? nullptr : msg.data(), inlen,
		keyNull ? nullptr : key.data(), keylen);
	Line l;
	l.str("e", "oneshot").num("inlen", (long long)inlen).num("outlen", (long long)outlen).num("keylen", (long long)keylen)
		.boolean("inNull", inNull).boolean("outNull", outNull).boolean("keyNull", keyNull);
	// bytes are only meaningful for the valid shape; keep them bounded for invalid ones
	l.bytes("msg", msg).bytes("key", keylen <= 64 ? key : std::vector<uint8_t>());
	l.num("rc", rc).bytes("out", buf, CAP);
	l.emit(out);
}

static void stream(Rng& rng, size_t outlen, size_t keylen, bool keyed, bool keyNull,
	const std::vector<size_t>& chunkLens, size_t reqlen, bool post, bool usedBefore = false) {
	std::vector<uint8_t> key = rng.bytes(keylen);
	blake2b_state S;
	memset(&S, 0, sizeof S);
	// usedBefore: the state object already served a valid session (init + update) - the session under test must not depend on that,
	// and a REJECTED init must leave an object on which update and final fail
	if (usedBefore) { uint8_t junk[3] = { 1, 2, 3 }; blake2b_init(&S, 32); blake2b_update(&S, junk, 3); }
	std::vector<long long> rcs;
	int rc;
	if (keyed) rc = blake2b_init_key(&S, outlen, keyNull ? nullptr : key.data(), keylen);
	else rc = blake2b_init(&S, outlen);
	rcs.push_back(rc);
	std::string chunks = "[";
	for (size_t i = 0; i < chunkLens.size(); ++i) {
		std::vector<uint8_t> c = rng.bytes(chunkLens[i]);
		uint8_t dummy = 0;
		rc = blake2b_update(&S, c.empty() ? &dummy : c.data(), c.size());
		rcs.push_back(rc);
		if (i) chunks += ",";
		chunks += json_bytes(c.data(), c.size());
	}
	chunks += "]";
	uint8_t buf[CAP]; memset(buf, 0xAA, CAP);
	rc = blake2b_final(&S, buf, reqlen);
	rcs.push_back(rc);
	std::vector<long long> postrc;
	if (post) {
		uint8_t one = 1; uint8_t buf2[CAP];
		postrc.push_back(blake2b_update(&S, &one, 1));
		postrc.push_back(blake2b_final(&S, buf2, 64));
	}
	Line l;
	l.str("e", "stream").num("outlen", (long long)outlen).boolean("keyed", keyed).boolean("keyNull", keyNull)
		.bytes("key", keylen <= 64 ? key : std::vector<uint8_t>()).num("keylen", (long long)keylen)
		.raw("chunks", chunks).num("reqlen", (long long)reqlen).nums("rcs", rcs).nums("post", postrc).bytes("out", buf, CAP);
	l.emit(out);
}

static void blong(Rng& rng, size_t inlen, size_t outlen) {
	std::vector<uint8_t> msg = rng.bytes(inlen), o(outlen);
	int rc = blake2b_long(o.data(), outlen, msg.data(), inlen);
	Line l;
	l.str("e", "long").bytes("msg", msg).num("outlen", (long long)outlen).num("rc", rc).bytes("out", o);
	l.emit(out);
}

static void commit(Rng& rng, size_t inlen) {
	std::vector<uint8_t> in = rng.bytes(inlen), h = rng.bytes(32);
	uint8_t buf[CAP]; memset(buf, 0xAA, CAP);
	uint8_t dummy = 0;
	randomx_calculate_commitment(in.empty() ? &dummy : in.data(), inlen, h.data(), buf);
	Line l;
	l.str("e", "commit").bytes("input", in).bytes("hash", h).bytes("out", buf, CAP);
	l.emit(out);
}

// split total into chunks with cuts at the given positions
static std::vector<size_t> cuts(size_t total, std::vector<size_t> pos) {
	std::sort(pos.begin(), pos.end());
	std::vector<size_t> r; size_t prev = 0;
	for (size_t p : pos) { if (p > total) p = total; r.push_back(p - prev); prev = p; }
	r.push_back(total - prev);
	return r;
}

int main(int argc, char** argv) {
	uint64_t seed = strtoull(arg(argc, argv, "--seed", "1"), nullptr, 10);
	bool thorough = !strcmp(arg(argc, argv, "--tier", "quick"), "thorough");
	out = fopen(arg(argc, argv, "--out", "/dev/stdout"), "w");
	if (!out) return 2;
	Rng rng(seed);

	// ---- one-shot: every output length, lengths around block edges, key lengths
	const size_t lens[] = { 0, 1, 2, 55, 63, 64, 65, 111, 112, 127, 128, 129, 255, 256, 257, 383, 384, 385, 512 };
	const size_t klens[] = { 0, 0, 1, 31, 32, 63, 64 };
	size_t li = 0, ki = 0;
	for (size_t outlen = 1; outlen <= 64; ++outlen) {
		oneshot(rng, lens[li++ % (sizeof lens / sizeof *lens)], outlen, klens[ki++ % (sizeof klens / sizeof *klens)], false, false, false);
	}
	for (size_t L : lens) { oneshot(rng, L, 64, 0, false, false, false); oneshot(rng, L, 32, 0, false, false, false); oneshot(rng, L, 64, 64, false, false, false); }
	int nrand = thorough ? 600 : 40;
	for (int i = 0; i < nrand; ++i)
		oneshot(rng, rng.below(thorough ? 1200 : 400), 1 + rng.below(64), rng.below(3) ? 0 : rng.below(65), false, false, false);
	// invalid parameters: nothing may be written
	oneshot(rng, 10, 0, 0, false, false, false);
	oneshot(rng, 10, 65, 0, false, false, false);
	oneshot(rng, 10, 32, 65, false, false, false);
	oneshot(rng, 10, 32, 0, true, false, false);
	oneshot(rng, 10, 32, 0, false, true, false);
	oneshot(rng, 10, 32, 16, false, false, true);
	oneshot(rng, 0, 32, 0, true, false, false); // NULL input with length 0 is valid

	// ---- streaming: chunk boundaries relative to block edges
	const size_t totals[] = { 0, 1, 127, 128, 129, 255, 256, 257, 384, 385 };
	for (size_t T : totals) {
		stream(rng, 64, 0, false, false, { T }, 64, true);
		stream(rng, 32, 0, false, false, cuts(T, { 1 }), 32, false);
		stream(rng, 64, 0, false, false, cuts(T, { 127 }), 64, false);
		stream(rng, 64, 0, false, false, cuts(T, { 128 }), 64, false);
		stream(rng, 48, 0, false, false, cuts(T, { 129 }), 64, false);
		stream(rng, 64, 0, false, false, cuts(T, { 0, 128, 128, 256 }), 64, false);
		stream(rng, 64, 32, true, false, cuts(T, { 64, 192 }), 64, false);
		stream(rng, 17, 64, true, false, cuts(T, { 1, 2, 3, 130 }), 17, true);
		for (int r = 0; r < (thorough ? 12 : 2); ++r) {
			std::vector<size_t> pos; int nc = rng.below(6);
			for (int k = 0; k < nc; ++k) pos.push_back(rng.below((uint32_t)T + 1));
			stream(rng, 1 + rng.below(64), rng.below(2) ? 1 + rng.below(64) : 0, false, false, cuts(T, pos), 64, false);
		}
	}
	{ // byte-at-a-time across two block edges
		std::vector<size_t> ones(260, 1);
		stream(rng, 64, 0, false, false, ones, 64, false);
	}
	for (int i = 0; i < (thorough ? 200 : 20); ++i) {
		size_t T = rng.below(thorough ? 1500 : 600);
		std::vector<size_t> pos; int nc = rng.below(8);
		for (int k = 0; k < nc; ++k) pos.push_back(rng.below((uint32_t)T + 1));
		bool keyed = rng.below(3) == 0;
		size_t ol = 1 + rng.below(64);
		stream(rng, ol, keyed ? 1 + rng.below(64) : 0, keyed, false, cuts(T, pos), ol + rng.below(3), rng.below(2));
	}
	// ---- a message longer than 2^32 bytes (zero pages, never resident): the one-shot call and the streamed session must agree;
	//      the digest of the first (length mod 2^32) bytes alone is recorded to show that no length was truncated to 32 bits
	if (atoi(arg(argc, argv, "--big", "1"))) {
		const size_t extra = 3 + rng.below(700);   // mostly more than one block beyond 2^32: a bound computed from (length - buffered block) must not lose the high word either
		const size_t n = ((size_t)1 << 32) + extra;
		uint8_t* big = (uint8_t*)mmap(nullptr, n, PROT_READ, MAP_PRIVATE | MAP_ANONYMOUS | MAP_NORESERVE, -1, 0);
		if (big != MAP_FAILED) {
			uint8_t d1[32], d2[32], d3[32];
			int rc1 = blake2b(d1, 32, big, n, nullptr, 0);
			blake2b_state S; int rc2 = blake2b_init(&S, 32);
			for (size_t off = 0; off < n; off += (size_t)1 << 30) { size_t c = n - off < ((size_t)1 << 30) ? n - off : (size_t)1 << 30; rc2 |= blake2b_update(&S, big + off, c); }
			rc2 |= blake2b_final(&S, d2, 32);
			blake2b(d3, 32, big, extra, nullptr, 0);
			// the commitment of that input: Blake2b-256(input || hash) - against the streamed computation of the same concatenation
			uint8_t hin[32], c1[32], c2[32]; for (int q = 0; q < 32; ++q) hin[q] = (uint8_t)(q * 7 + 1);
			randomx_calculate_commitment(big, n, hin, c1);
			{ blake2b_state T; blake2b_init(&T, 32); for (size_t off = 0; off < n; off += (size_t)1 << 30) { size_t c = n - off < ((size_t)1 << 30) ? n - off : (size_t)1 << 30; blake2b_update(&T, big + off, c); } blake2b_update(&T, hin, 32); blake2b_final(&T, c2, 32); }
			Line l; l.str("e", "big").bytes("commit", c1, 32).bytes("commitStreamed", c2, 32).num("lenHigh", (long long)(n >> 32)).num("lenLow", (long long)extra).num("rc1", rc1).num("rc2", rc2).bytes("oneshot", d1, 32).bytes("streamed", d2, 32).bytes("truncated", d3, 32);
			l.emit(out);
			munmap(big, n);
		}
	}
	// invalid lengths beyond 2^32 (a length truncated to 32 bits would look valid): recorded as high word + low part
	{
		struct { size_t outlen, keylen; } wide[] = { { ((size_t)1 << 32) + 32, 0 }, { ((size_t)3 << 32) + 64, 0 }, { ((size_t)1 << 32) + 1, 0 }, { 32, ((size_t)1 << 32) + 16 }, { 64, ((size_t)2 << 32) + 64 } };
		for (auto& w : wide) {
			uint8_t msg[5] = { 1, 2, 3, 4, 5 }; uint8_t buf[CAP]; memset(buf, 0xAA, CAP);
			static uint8_t keybuf[256]; memset(keybuf, 0x11, sizeof keybuf);
			int rc = blake2b(buf, w.outlen, msg, 5, w.keylen ? keybuf : nullptr, w.keylen);
			blake2b_state S; memset(&S, 0, sizeof S);
			int rc2 = w.keylen ? blake2b_init_key(&S, w.outlen, keybuf, w.keylen) : blake2b_init(&S, w.outlen);
			Line l; l.str("e", "widelen").num("outHigh", (long long)(w.outlen >> 32)).num("outLow", (long long)(w.outlen & 0xffffffffu)).num("keyHigh", (long long)(w.keylen >> 32)).num("keyLow", (long long)(w.keylen & 0xffffffffu))
				.num("rc", rc).num("rcInit", rc2).bytes("out", buf, CAP); l.emit(out);
		}
	}
	// misuse / invalid parameters of the streaming interface
	stream(rng, 0, 0, false, false, { 5 }, 64, false);
	stream(rng, 65, 0, false, false, { 5 }, 64, false);
	stream(rng, 32, 0, true, false, { 5 }, 32, false);   // init_key with keylen 0
	stream(rng, 32, 65, true, false, { 5 }, 32, false);  // key too long
	// the same on a state object that was in use (history of the object must not matter)
	stream(rng, 0, 0, false, false, { 5 }, 64, false, true);
	stream(rng, 65, 0, false, false, { 5, 130 }, 64, true, true);
	stream(rng, 32, 0, true, false, { 5 }, 32, false, true);
	stream(rng, 32, 65, true, false, { 5 }, 32, true, true);
	stream(rng, 32, 16, true, true, { 5 }, 32, false, true);   // key pointer NULL
	stream(rng, 64, 0, false, false, { 100, 100 }, 64, false, true);
	stream(rng, 20, 20, true, false, { 128, 1 }, 20, true, true);
	stream(rng, 32, 16, true, true, { 5 }, 32, false);   // key NULL
	stream(rng, 32, 0, false, false, { 5, 200 }, 31, true); // output buffer too short

	// ---- blake2b_long
	const size_t olens[] = { 1, 4, 32, 63, 64, 65, 96, 97, 127, 128, 129, 160, 1024 };
	for (size_t ol : olens) { blong(rng, 72, ol); blong(rng, 0, ol); }
	blong(rng, 200, 1024); blong(rng, 124, 64); blong(rng, 125, 64);
	for (int i = 0; i < (thorough ? 60 : 6); ++i) blong(rng, rng.below(300), 1 + rng.below(thorough ? 1100 : 300));

	// ---- commitment
	const size_t ilens[] = { 0, 1, 32, 76, 95, 96, 97, 127, 128, 223, 224, 225, 300 };
	for (size_t il : ilens) commit(rng, il);
	for (int i = 0; i < (thorough ? 100 : 10); ++i) commit(rng, rng.below(400));

	fclose(out);
	return 0;
}
