// rx_conc: concurrent scenarios for C14, meant to be built with -fsanitize=thread (variant "tsan").
// Threads are released by a barrier and run scripts of public calls over shared data; the program
// records per-thread results next to the results of the same script run sequentially. ThreadSanitizer
// reports go to the log file named in TSAN_OPTIONS; the orchestrator turns them into race events.
// No oracle here: digests / item comparisons are recorded, the trace specification decides.
//
// usage: rx_conc --mode lightvms|owncache|dsinit --threads N --seed S --out FILE
#include "vh.hpp"
#include "randomx.h"
#include "dataset.hpp"
#include <thread>
#include <vector>
#include <atomic>
#include <string>
#include <mutex>
#include <condition_variable>
#include <algorithm>

using namespace vh;

struct Barrier {
	std::mutex m; std::condition_variable cv; int n, count = 0, gen = 0;
	explicit Barrier(int n_) : n(n_) {}
	void wait() { std::unique_lock<std::mutex> l(m); int g = gen; if (++count == n) { ++gen; count = 0; cv.notify_all(); } else cv.wait(l, [&] { return g != gen; }); }
};
static std::string hex(const void* p, size_t n) { static const char* d = "0123456789abcdef"; std::string s; const uint8_t* b = (const uint8_t*)p; for (size_t i = 0; i < n; ++i) { s += d[b[i] >> 4]; s += d[b[i] & 15]; } return s; }
static std::string jarr(const std::vector<std::string>& v) { std::string s = "["; for (size_t i = 0; i < v.size(); ++i) { if (i) s += ","; s += "\"" + v[i] + "\""; } return s + "]"; }

static const randomx_flags LIGHT_FLAGS[] = {
	RANDOMX_FLAG_DEFAULT, RANDOMX_FLAG_HARD_AES, RANDOMX_FLAG_JIT, RANDOMX_FLAG_JIT | RANDOMX_FLAG_HARD_AES,
	RANDOMX_FLAG_JIT | RANDOMX_FLAG_SECURE, RANDOMX_FLAG_JIT | RANDOMX_FLAG_SECURE | RANDOMX_FLAG_HARD_AES,
	RANDOMX_FLAG_DEFAULT | RANDOMX_FLAG_V2, RANDOMX_FLAG_JIT | RANDOMX_FLAG_V2 | RANDOMX_FLAG_HARD_AES };

static std::vector<std::string> vm_script(randomx_flags f, randomx_cache* cache, int t, int rounds, int nhash) {
	std::vector<std::string> out;
	for (int r = 0; r < rounds; ++r) {
		randomx_vm* vm = randomx_create_vm(f, cache, nullptr);
		if (!vm) { out.push_back("null"); continue; }
		for (int i = 0; i < nhash; ++i) {
			char in[64]; int n = snprintf(in, sizeof in, "conc input %d/%d/%d", t, r, i);
			uint8_t h[32]; randomx_calculate_hash(vm, in, (size_t)n, h); out.push_back(hex(h, 32));
		}
		randomx_destroy_vm(vm);
	}
	return out;
}

static std::vector<std::string> own_script(int t, int argon) {
	std::vector<std::string> out;
	randomx_flags cf = (randomx_flags)((t % 2 ? RANDOMX_FLAG_JIT : 0) | (argon == 1 ? RANDOMX_FLAG_ARGON2_SSSE3 : argon == 2 ? RANDOMX_FLAG_ARGON2_AVX2 : 0));
	randomx_cache* c = randomx_alloc_cache(cf);
	if (!c) { out.push_back("null"); return out; }
	char key[32]; int kn = snprintf(key, sizeof key, "own key %d", t);
	randomx_init_cache(c, key, (size_t)kn);
	randomx_vm* vm = randomx_create_vm((randomx_flags)((t % 2 ? RANDOMX_FLAG_JIT : 0) | (t % 3 == 0 ? RANDOMX_FLAG_HARD_AES : 0)), c, nullptr);
	uint8_t h[32];
	randomx_calculate_hash(vm, "abc", 3, h); out.push_back(hex(h, 32));
	kn = snprintf(key, sizeof key, "own key %d rekeyed", t);
	randomx_init_cache(c, key, (size_t)kn);
	randomx_vm_set_cache(vm, c);
	randomx_calculate_hash(vm, "abc", 3, h); out.push_back(hex(h, 32));
	randomx_destroy_vm(vm);
	randomx_release_cache(c);
	return out;
}

int main(int argc, char** argv) {
	std::string mode = arg(argc, argv, "--mode", "lightvms");
	int nt = atoi(arg(argc, argv, "--threads", "4"));
	uint64_t seed = strtoull(arg(argc, argv, "--seed", "1"), nullptr, 10);
	FILE* out = fopen(arg(argc, argv, "--out", "/dev/stdout"), "w");
	Rng rng(seed);
	std::string phase = arg(argc, argv, "--phase", "both");   // seq: sequential reference only (run the non-TSan build), par: threads only
	bool doSeq = phase != "par", doPar = phase != "seq";
	randomx_flags best = randomx_get_flags();
	randomx_flags argonf = (randomx_flags)(best & (RANDOMX_FLAG_ARGON2_AVX2 | RANDOMX_FLAG_ARGON2_SSSE3));

	if (mode == "lightvms") {
		randomx_cache* cache = randomx_alloc_cache((randomx_flags)(argonf | RANDOMX_FLAG_JIT));
		randomx_init_cache(cache, "shared key", 10);
		int rounds = atoi(arg(argc, argv, "--rounds", "2")), nhash = atoi(arg(argc, argv, "--hashes", "2"));
		std::vector<randomx_flags> fl(nt);
		int interp = atoi(arg(argc, argv, "--interp", "1"));   // how many threads use the (slow under TSan) interpreter
		for (int t = 0; t < nt; ++t) {
			fl[t] = LIGHT_FLAGS[(t + rng.below(8)) % 8];
			bool isInterp = !(fl[t] & RANDOMX_FLAG_JIT);
			if (t < interp && !isInterp) fl[t] = (randomx_flags)(fl[t] & ~(RANDOMX_FLAG_JIT | RANDOMX_FLAG_SECURE));
			if (t >= interp && isInterp) fl[t] = (randomx_flags)(fl[t] | RANDOMX_FLAG_JIT);
		}
		if (nt >= 3) { fl[nt - 1] = (randomx_flags)(fl[nt - 1] | RANDOMX_FLAG_HARD_AES); fl[nt - 2] = (randomx_flags)(fl[nt - 2] | RANDOMX_FLAG_HARD_AES); } // two HARD_AES creations race
		std::vector<std::vector<std::string>> seq(nt), par(nt);
		if (doSeq) for (int t = 0; t < nt; ++t) seq[t] = vm_script(fl[t], cache, t, rounds, nhash);      // sequential reference
		Barrier b(nt);
		std::vector<std::thread> th;
		if (doPar) for (int t = 0; t < nt; ++t) th.emplace_back([&, t] { b.wait(); par[t] = vm_script(fl[t], cache, t, rounds, nhash); });
		for (auto& x : th) x.join();
		for (int t = 0; t < nt; ++t) { Line l; l.str("e", "thread").str("mode", mode).num("t", t).num("flags", fl[t]).raw("par", jarr(par[t])).raw("seq", jarr(seq[t])); l.emit(out); }
		randomx_release_cache(cache);
	}
	else if (mode == "owncache") {
		std::vector<std::vector<std::string>> seq(nt), par(nt);
		if (doSeq) for (int t = 0; t < nt; ++t) seq[t] = own_script(t, t % 3);
		Barrier b(nt);
		std::vector<std::thread> th;
		if (doPar) for (int t = 0; t < nt; ++t) th.emplace_back([&, t] { b.wait(); par[t] = own_script(t, t % 3); });
		for (auto& x : th) x.join();
		for (int t = 0; t < nt; ++t) { Line l; l.str("e", "thread").str("mode", mode).num("t", t).num("flags", t % 3).raw("par", jarr(par[t])).raw("seq", jarr(seq[t])); l.emit(out); }
	}
	else if (mode == "dsinit") {
		// disjoint abutting ranges (lengths not multiples of 4, some < 4) inside a window, from one shared cache
		bool jit = atoi(arg(argc, argv, "--jit", "1")) != 0;
		randomx_cache* cache = randomx_alloc_cache((randomx_flags)(argonf | (jit ? RANDOMX_FLAG_JIT : 0)));
		randomx_init_cache(cache, "shared key", 10);
		randomx_dataset* ds = randomx_alloc_dataset(RANDOMX_FLAG_DEFAULT);
		uint8_t* mem = (uint8_t*)randomx_get_dataset_memory(ds);
		unsigned long total = randomx_dataset_item_count();
		unsigned long window = (unsigned long)atol(arg(argc, argv, "--window", "20000"));
		unsigned long base = atoi(arg(argc, argv, "--atend", "0")) ? total - window : (unsigned long)rng.below(1000000) * 4 + rng.below(4);
		unsigned long guard = 64;
		memset(mem + (base - (base >= guard ? guard : base)) * 64, 0xA7, (size_t)(window + 2 * guard) * 64 > (size_t)(total - base + guard) * 64 ? (size_t)(total - (base - (base >= guard ? guard : base))) * 64 : (size_t)(window + 2 * guard) * 64);
		// cut points
		std::vector<unsigned long> cut; cut.push_back(base);
		for (int t = 1; t < nt; ++t) cut.push_back(base + rng.below((uint32_t)window));
		cut.push_back(base + window);
		std::sort(cut.begin(), cut.end());
		if (nt >= 3) { cut[1] = cut[0] + 1 + rng.below(3); }                  // one range shorter than 4
		std::sort(cut.begin(), cut.end());
		Barrier b(nt);
		std::vector<std::thread> th;
		for (int t = 0; t < nt; ++t) th.emplace_back([&, t] { b.wait(); if (cut[t + 1] > cut[t]) randomx_init_dataset(ds, cache, cut[t], cut[t + 1] - cut[t]); });
		for (auto& x : th) x.join();
		long long mism = 0, outside = 0;
		for (unsigned long i = base; i < base + window; ++i) { uint8_t item[64]; randomx::initDatasetItem(cache, item, i); if (memcmp(item, mem + (size_t)i * 64, 64)) ++mism; }
		unsigned long lo = base >= guard ? base - guard : 0, hi = base + window + guard > total ? total : base + window + guard;
		for (unsigned long i = lo; i < hi; ++i) if (i < base || i >= base + window) for (int k = 0; k < 64; ++k) if (mem[(size_t)i * 64 + k] != 0xA7) { ++outside; break; }
		std::vector<long long> cuts(cut.begin(), cut.end());
		Line l; l.str("e", "dsinit").boolean("jit", jit).num("threads", nt).nums("cuts", cuts).num("mismatch", mism).num("outside", outside); l.emit(out);
		randomx_release_dataset(ds); randomx_release_cache(cache);
	}
	fclose(out);
	return 0;
}
