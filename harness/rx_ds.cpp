// rx_ds: C08 binding harness. Calls the real randomx_init_dataset on a pattern-filled dataset for
// (start, count) classes at several bases and for both cache flavours; a trampoline installed in
// cache->datasetInit records the inner calls. Records what changed and how it compares with the
// light-mode item function; no verdicts here.
// usage: rx_ds --seed S --tier quick|thorough --out FILE
#include "vh.hpp"
#include "randomx.h"
#include "dataset.hpp"
#include "superscalar.hpp"
#include "jit_compiler.hpp"
#include "reciprocal.h"
#include <thread>
#include <vector>
#include <string>
#include <algorithm>
#include <atomic>
#include <csignal>
#include <sys/mman.h>
#include <unistd.h>

using namespace vh;
static FILE* out;
static randomx::DatasetInitFunc* g_orig;
static uint8_t* g_dsmem; static size_t g_dsbytes;
struct Inner { long long s, e, dest; };
static std::vector<Inner> g_inner;
static void tramp(randomx_cache* c, uint8_t* dst, uint32_t s, uint32_t e) {
	long long d = (dst >= g_dsmem && dst < g_dsmem + g_dsbytes) ? (long long)((dst - g_dsmem) / 64) : -1;
	if (d >= 0 && (dst - g_dsmem) % 64) d = -2; // misaligned destination
	g_inner.push_back(Inner{ (long long)s, (long long)e, d });
	g_orig(c, dst, s, e);
}

static const uint8_t PAT = 0xA7;
static bool is_pat(const uint8_t* p) { for (int k = 0; k < 64; ++k) if (p[k] != PAT) return false; return true; }

static void one(randomx_cache* cache, randomx_dataset* ds, bool jit, unsigned long start, unsigned long count, bool sparse = false) {
	unsigned long total = randomx_dataset_item_count();
	const unsigned long G = 16;
	unsigned long lo = start >= G ? start - G : 0, hi = std::min(total, start + count + G);
	memset(g_dsmem + (size_t)lo * 64, PAT, (size_t)(hi - lo) * 64);
	g_inner.clear();
	g_orig = cache->datasetInit; cache->datasetInit = tramp;
	randomx_init_dataset(ds, cache, start, count);
	cache->datasetInit = g_orig;
	long long clo = -1, chi = -1, n = 0, bad = 0, missing = 0;
	for (unsigned long i = lo; i < hi; ++i) {
		bool changed = !is_pat(g_dsmem + (size_t)i * 64);
		if (changed) { if (clo < 0) clo = (long long)i; chi = (long long)i; ++n; }
		if (i >= start && i < start + count) {
			// (sparse: the values of a very long range are recomputed near its ends and around the 2^25-item boundary only)
			if (sparse && !changed) { ++missing; continue; }
			if (sparse && !(i - start < 64 || start + count - i <= 64 || (i - start >= (1ul << 25) - 64 && i - start < (1ul << 25) + 64) || (i % 65537) == 0)) continue;
			uint8_t item[64]; randomx::initDatasetItem(cache, item, i);
			if (!changed) ++missing; else if (memcmp(item, g_dsmem + (size_t)i * 64, 64)) ++bad;
		}
	}
	std::string inner = "[";
	for (size_t k = 0; k < g_inner.size(); ++k) { char b[96]; snprintf(b, sizeof b, "%s[%lld,%lld,%lld]", k ? "," : "", g_inner[k].s, g_inner[k].e, g_inner[k].dest); inner += b; }
	inner += "]";
	std::vector<long long> ch; if (n) { ch.push_back(clo); ch.push_back(chi); ch.push_back(n); }
	Line l; l.str("e", "init").boolean("jit", jit).num("start", (long long)start).num("count", (long long)count).num("total", (long long)total)
		.raw("inner", inner).nums("changed", ch).num("bad", bad).num("missing", missing);
	l.emit(out);
}

static void multi(Rng& rng, randomx_cache* cache, randomx_dataset* ds, bool jit, int nt, unsigned long base, unsigned long window) {
	unsigned long total = randomx_dataset_item_count();
	const unsigned long G = 64;
	unsigned long lo = base >= G ? base - G : 0, hi = std::min(total, base + window + G);
	memset(g_dsmem + (size_t)lo * 64, PAT, (size_t)(hi - lo) * 64);
	std::vector<unsigned long> cut; cut.push_back(base); cut.push_back(base + window);
	for (int t = 1; t < nt; ++t) cut.push_back(base + rng.below((uint32_t)window + 1));
	std::sort(cut.begin(), cut.end());
	// more calls than threads: each thread takes every nt-th range (ranges may be empty or shorter than 4)
	std::vector<std::thread> th;
	for (int t = 0; t < nt; ++t) th.emplace_back([&, t] { for (size_t k = (size_t)t; k + 1 < cut.size(); k += (size_t)nt) randomx_init_dataset(ds, cache, cut[k], cut[k + 1] - cut[k]); });
	for (auto& x : th) x.join();
	std::atomic<long long> mism(0), missing(0);
	std::vector<std::thread> chk; int nc = 16;
	for (int c = 0; c < nc; ++c) chk.emplace_back([&, c] {
		for (unsigned long i = base + (unsigned long)c; i < base + window; i += (unsigned long)nc) {
			uint8_t item[64]; randomx::initDatasetItem(cache, item, i);
			if (is_pat(g_dsmem + (size_t)i * 64)) ++missing; else if (memcmp(item, g_dsmem + (size_t)i * 64, 64)) ++mism;
		}});
	for (auto& x : chk) x.join();
	long long outside = 0;
	for (unsigned long i = lo; i < hi; ++i) if ((i < base || i >= base + window) && !is_pat(g_dsmem + (size_t)i * 64)) ++outside;
	std::vector<long long> cuts(cut.begin(), cut.end()); if (cuts.size() > 40) cuts.resize(40);
	Line l; l.str("e", "multi").boolean("jit", jit).num("threads", nt).num("base", (long long)base).num("window", (long long)window).nums("cuts", cuts)
		.num("mismatch", (long long)mism).num("outside", outside).num("missing", (long long)missing);
	l.emit(out);
}

// an access outside the dataset extent (the extent ends at a page end followed by an inaccessible page; the page in front
// of it is inaccessible too) becomes a Crash line, which no action of the trace specification accepts
static void on_segv(int sig, siginfo_t* si, void*) {
	char m[160]; int n = snprintf(m, sizeof m, "{\"e\":\"Crash\",\"during\":\"randomx_init_dataset\",\"sig\":%d,\"offset\":%lld}\n", sig, (long long)((uint8_t*)si->si_addr - g_dsmem));
	fflush(out); (void)!write(fileno(out), m, (size_t)n); _exit(0);
}

int main(int argc, char** argv) {
	uint64_t seed = strtoull(arg(argc, argv, "--seed", "1"), nullptr, 10);
	bool thorough = !strcmp(arg(argc, argv, "--tier", "quick"), "thorough");
	int flavour = atoi(arg(argc, argv, "--jit", "0"));
	out = fopen(arg(argc, argv, "--out", "/dev/stdout"), "w");
	Rng rng(seed * 2 + (uint64_t)flavour);
	randomx_flags argonf = (randomx_flags)(randomx_get_flags() & (RANDOMX_FLAG_ARGON2_AVX2 | RANDOMX_FLAG_ARGON2_SSSE3));
	randomx_cache* cache = randomx_alloc_cache((randomx_flags)(argonf | (flavour ? RANDOMX_FLAG_JIT : 0)));
	std::vector<uint8_t> key = rng.bytes(1 + rng.below(80));
	randomx_init_cache(cache, key.data(), key.size());
	randomx_dataset* ds = randomx_alloc_dataset(RANDOMX_FLAG_DEFAULT);
	unsigned long total = randomx_dataset_item_count();
	g_dsbytes = (size_t)total * 64;
	// the library's own allocation is swapped for a guarded mapping of exactly the dataset extent
	uint8_t* libmem = ds->memory;
	size_t lead = (4096 - (g_dsbytes % 4096)) % 4096;
	uint8_t* region = (uint8_t*)mmap(nullptr, 4096 + lead + g_dsbytes + 4096, PROT_NONE, MAP_PRIVATE | MAP_ANONYMOUS | MAP_NORESERVE, -1, 0);
	mprotect(region + 4096, lead + g_dsbytes, PROT_READ | PROT_WRITE);
	memset(region + 4096, 0xEE, lead);                       // canary in front of the extent (same page as the first items)
	g_dsmem = region + 4096 + lead; ds->memory = g_dsmem;
	struct sigaction sa; memset(&sa, 0, sizeof sa); sa.sa_sigaction = on_segv; sa.sa_flags = SA_SIGINFO; sigaction(SIGSEGV, &sa, nullptr); sigaction(SIGBUS, &sa, nullptr);
	const bool endOnly = !strcmp(arg(argc, argv, "--part", "all"), "end");
	bool jit = flavour != 0;
	// (start, count) classes: every count 0..13 (+ larger), every alignment of start, three bases
	std::vector<unsigned long> counts; for (unsigned long c = 0; c <= 13; ++c) counts.push_back(c);
	const unsigned long more[] = { 16, 17, 63, 64, 65, 255, 1001, 4096, 4099 };
	for (unsigned long c : more) counts.push_back(c);
	unsigned long mid = 4ul * (1000000 + rng.below(5000000));
	for (unsigned long c : counts) {
		for (unsigned long al = 0; al < 4; ++al) {
			if (c > 13 && al != (c % 4)) continue;
			if (!endOnly) one(cache, ds, jit, al, c);                 // from the first items
			if (!endOnly) one(cache, ds, jit, mid + al, c);           // somewhere in the middle
			if (c + al <= total) one(cache, ds, jit, total - c - al, c); // ending at / just before the last item
		}
		one(cache, ds, jit, total - c, c);                            // ending exactly at the last item
	}
	{ long long bad = 0; for (size_t k = 0; k < lead; ++k) bad += region[4096 + k] != 0xEE; Line l; l.str("e", "canary").boolean("jit", jit).num("overwritten", bad); l.emit(out); }
	if (endOnly) { one(cache, ds, jit, 0, 1); one(cache, ds, jit, 0, 5); one(cache, ds, jit, 1, 2); ds->memory = libmem; randomx_release_dataset(ds); randomx_release_cache(cache); fclose(out); return 0; }
	one(cache, ds, jit, 4194304 - 7, 16);                             // across the cache-line wrap of the mix-block index (2^22 cache lines)
	one(cache, ds, jit, 2 * 4194304 - 3, 9);
	for (int i = 0; i < (thorough ? 300 : 30); ++i) { unsigned long c = rng.below(thorough ? 3000 : 300); one(cache, ds, jit, rng.below((uint32_t)(total - c)), c); }
	// several threads over random partitions
	multi(rng, cache, ds, jit, 2, mid, thorough ? 400000 : 40000);
	multi(rng, cache, ds, jit, 5, 4194304 - 5000, 10001);
	multi(rng, cache, ds, jit, 16, total - (thorough ? 500000 : 50000), thorough ? 500000 : 50000);
	multi(rng, cache, ds, jit, 7, 0, 20011);
	if (thorough) { for (int i = 0; i < 6; ++i) multi(rng, cache, ds, jit, 2 + rng.below(15), rng.below((uint32_t)(total - 300000)), 100000 + rng.below(200000)); }
	if (thorough && atoi(arg(argc, argv, "--full", "0"))) multi(rng, cache, ds, jit, 16, 0, total);
	// one call spanning more than 2^25 items (more than 2 GiB of dataset): byte offsets inside the initialiser exceed 31 bits.  To keep it
	// cheap the cache object used here has eight one-instruction programs (made by the harness; the item function is the library's).
	if (atoi(arg(argc, argv, "--long", (thorough || !flavour) ? "1" : "0")) && !endOnly) {       // quick tier: interpreted initialiser only
		randomx_cache* tiny = randomx_alloc_cache((randomx_flags)(argonf | (flavour ? RANDOMX_FLAG_JIT : 0)));
		uint8_t k1[1] = { 7 }; randomx_init_cache(tiny, k1, 1);                       // real memory, real function pointers
		for (int i = 0; i < RANDOMX_CACHE_ACCESSES; ++i) {
			randomx::SuperscalarProgram& p = tiny->programs[i];
			randomx::Instruction& in = p(0); in.opcode = (uint8_t)randomx::SuperscalarInstructionType::IXOR_R; in.dst = (uint8_t)(i % 8); in.src = (uint8_t)((i + 3) % 8); in.mod = 0; in.setImm32(0);
			p.setSize(1); p.setAddressRegister((i * 5 + 1) % 8);
		}
		tiny->reciprocalCache.clear();
		if (flavour) { tiny->jit->enableWriting(); tiny->jit->generateSuperscalarHash(tiny->programs, tiny->reciprocalCache); tiny->jit->generateDatasetInitCode(); tiny->jit->enableExecution(); }
		unsigned long cnt = (1ul << 25) + 4 * (unsigned long)(1 + rng.below(6));
		one(tiny, ds, jit, 4 * (unsigned long)rng.below(1000), cnt, true);
		randomx_release_cache(tiny);
	}
	// the SAME cache object re-keyed: what the initialiser produces must follow the current key, whatever the object held before
	// (keys related to the previous one: proper prefix, extension, same first 60 bytes = same SuperscalarHash seed, embedded NUL, empty)
	{
		std::vector<std::vector<uint8_t>> seq;
		std::vector<uint8_t> k0 = rng.bytes(24); k0[5] = 0;                                  // contains a NUL
		seq.push_back(k0);
		seq.push_back(std::vector<uint8_t>(k0.begin(), k0.begin() + 11));                    // proper prefix (cut after the NUL)
		seq.push_back(k0);                                                                   // back to the longer key
		{ auto k = k0; k.back() ^= 1; seq.push_back(k); }                                    // same length, differs in the last byte only
		{ auto k = rng.bytes(70); seq.push_back(k); k[65] ^= 0x80; seq.push_back(k); }       // two keys with identical first 60 bytes
		seq.push_back(std::vector<uint8_t>());                                               // the empty key
		seq.push_back(std::vector<uint8_t>(k0.begin(), k0.begin() + 5));                     // "xxxxx" = prefix that ends right before the NUL
		int step = 0;
		for (auto& k : seq) {
			randomx_init_cache(cache, k.data(), k.size());
			{ Line l; l.str("e", "rekey").num("step", step++).num("len", (long long)k.size()); l.emit(out); }
			one(cache, ds, jit, 4 * (unsigned long)rng.below(8000000), 8);
			one(cache, ds, jit, total - 5, 5);
			one(cache, ds, jit, 1 + 4 * (unsigned long)rng.below(8000000), 3);
		}
	}
	ds->memory = libmem;
	randomx_release_dataset(ds); randomx_release_cache(cache);
	fclose(out);
	return 0;
}
