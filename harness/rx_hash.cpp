// rx_hash: records the intermediate values of real RandomX hash computations (interpreter, light mode) so
// that every link of the algorithm of specs.md chapter 2 can be recomputed by the specification (C02):
// seed, scratchpad blocks (sampled links of the AesGenerator1R chain), the generator hand-over, all program
// buffers, sampled VM loop iterations (state before, scratchpad pages touched, dataset item read, state after,
// scratchpad words written), the register file after each program, the re-seeding, sampled links of the
// fingerprint chain, the final digest.  The VM is a subclass of the library's interpreted light VM that only
// logs which dataset item is read.  No oracle here.  Build with -fno-access-control.
// usage: rx_hash --seed S --tier T --out FILE
#include "vh.hpp"
#include "randomx.h"
#include "dataset.hpp"
#include "vm_interpreted_light.hpp"
#include "aes_hash.hpp"
#include "verif_hooks.h"
#include "blake2/blake2.h"
#include <csignal>
#include <sys/mman.h>
#include <vector>
#include <set>
#include <string>

using namespace vh;
using namespace randomx;
static FILE* out;

struct LVm : InterpretedLightVm<AlignedAllocator<CacheLineSize>, true> {
	using B = InterpretedLightVm<AlignedAllocator<CacheLineSize>, true>;
	explicit LVm(randomx_flags f) : B(f) {}
	uint64_t lastItem = 0; uint64_t lastWords[8];
	void datasetRead(uint64_t address, int_reg_t(&r)[8]) override {
		lastItem = address / CacheLineSize;
		int_reg_t before[8]; memcpy(before, r, sizeof before);
		B::datasetRead(address, r);
		for (int i = 0; i < 8; ++i) lastWords[i] = before[i] ^ r[i];
	}
};

// ---- scratchpad with page tracking -----------------------------------------------------------------
static uint8_t* g_sp; static bool g_track = false;
static std::vector<size_t> g_touched; static std::vector<std::vector<uint8_t>> g_pre;
static void on_segv(int, siginfo_t* si, void*) {
	uint8_t* a = (uint8_t*)si->si_addr;
	if (g_track && a >= g_sp && a < g_sp + ScratchpadSize) {
		size_t pg = (size_t)(a - g_sp) & ~(size_t)4095;
		mprotect(g_sp + pg, 4096, PROT_READ | PROT_WRITE);
		g_touched.push_back(pg); g_pre.emplace_back(g_sp + pg, g_sp + pg + 4096);
		return;
	}
	const char* m = "{\"e\":\"Crash\",\"during\":\"rx_hash\"}\n"; fflush(out); (void)!write(fileno(out), m, strlen(m)); _exit(0);
}

static LVm* g_vm; static std::set<std::pair<int, unsigned>> g_sample; static int g_prog = 0; static bool g_v2;
struct Pre { uint64_t r[8]; uint64_t a[4][2]; uint32_t ma, mx; uint32_t fprc; } g_prestate;
static std::string grp(const rx_vec_f128* g) { std::string s = "["; for (int i = 0; i < 4; ++i) { alignas(16) double d[2]; rx_store_vec_f128(d, g[i]); if (i) s += ","; s += "[" + json_limbs(&d[0], 8) + "," + json_limbs(&d[1], 8) + "]"; } return s + "]"; }

static void sink(const char* ev, const void* obj, unsigned long long a, unsigned long long b) {
	if (!strcmp(ev, "iter")) {
		if (a == 0) { // the program that is about to run (generated from the current generator seed)
			// with the branch targets of the interpreter's compiled bytecode (-2 for other instructions)
			std::vector<long long> tg; int size = g_v2 ? 384 : 256;
			for (int i = 0; i < size; ++i) tg.push_back(g_vm->bytecode[i].type == InstructionType::CBRANCH ? (long long)g_vm->bytecode[i].target : -2);
			Line l; l.str("e", "h_prog").num("i", g_prog).boolean("v2", g_v2).limbs("bytes", &g_vm->program, 3200).nums("targets", tg); l.emit(out);
		}
		if (!g_sample.count({ g_prog, (unsigned)a })) return;
		NativeRegisterFile* n = (NativeRegisterFile*)b;
		memcpy(g_prestate.r, n->r, 64);
		for (int i = 0; i < 4; ++i) { alignas(16) double d[2]; rx_store_vec_f128(d, n->a[i]); memcpy(g_prestate.a[i], d, 16); }
		g_prestate.ma = g_vm->mem.ma; g_prestate.mx = g_vm->mem.mx; g_prestate.fprc = rx_get_rounding_mode();
		g_touched.clear(); g_pre.clear(); g_track = true;
		mprotect(g_sp, ScratchpadSize, PROT_NONE);
	}
	else if (!strcmp(ev, "iter_end")) {
		if (!g_track) return;
		g_track = false;
		mprotect(g_sp, ScratchpadSize, PROT_READ | PROT_WRITE);
		NativeRegisterFile* n = (NativeRegisterFile*)b;
		uint32_t fprc2 = rx_get_rounding_mode(); rx_set_rounding_mode(0);
		std::string pages = "[", writes = "[";
		bool firstw = true;
		for (size_t k = 0; k < g_touched.size(); ++k) {
			if (k) pages += ",";
			pages += "[" + std::to_string(g_touched[k]) + "," + json_limbs(g_pre[k].data(), 4096) + "]";
			const uint64_t* now = (const uint64_t*)(g_sp + g_touched[k]); const uint64_t* was = (const uint64_t*)g_pre[k].data();
			for (int q = 0; q < 512; ++q) if (now[q] != was[q]) { if (!firstw) writes += ","; firstw = false; writes += "[" + std::to_string(g_touched[k] + 8 * q) + "," + json_limbs(&now[q], 8) + "]"; }
		}
		pages += "]"; writes += "]";
		Line l; l.str("e", "h_iter").num("i", g_prog).num("ic", (long long)a).boolean("v2", g_v2).words("r", g_prestate.r, 8).raw("a", [&] { std::string s = "["; for (int i = 0; i < 4; ++i) { if (i) s += ","; s += "[" + json_limbs(&g_prestate.a[i][0], 8) + "," + json_limbs(&g_prestate.a[i][1], 8) + "]"; } return s + "]"; }())
			.limbs("ma", &g_prestate.ma, 4).limbs("mx", &g_prestate.mx, 4).num("fprc", g_prestate.fprc)
			.raw("pages", pages).num("item", (long long)g_vm->lastItem).words("itemWords", g_vm->lastWords, 8)
			.words("r2", n->r, 8).raw("f2", grp(n->f)).raw("e2", grp(n->e)).limbs("ma2", &g_vm->mem.ma, 4).limbs("mx2", &g_vm->mem.mx, 4).num("fprc2", fprc2).raw("writes", writes);
		l.emit(out);
		rx_set_rounding_mode(fprc2);
	}
	else if (!strcmp(ev, "prog")) {
		// after program number b (0-based): register file; the program that just ran is still in vm->program
		Line l; l.str("e", "h_reg").num("i", (long long)b + 1).limbs("reg", g_vm->getRegisterFile(), 256); l.emit(out);
		g_prog = (int)b + 2;
	}
}

int main(int argc, char** argv) {
	uint64_t seed = strtoull(arg(argc, argv, "--seed", "1"), nullptr, 10);
	bool thorough = !strcmp(arg(argc, argv, "--tier", "quick"), "thorough");
	int nhash = atoi(arg(argc, argv, "--hashes", thorough ? "6" : "2"));
	out = fopen(arg(argc, argv, "--out", "/dev/stdout"), "w");
	Rng rng(seed);
	g_sp = (uint8_t*)mmap(nullptr, ScratchpadSize, PROT_READ | PROT_WRITE, MAP_PRIVATE | MAP_ANONYMOUS, -1, 0);
	struct sigaction sa; memset(&sa, 0, sizeof sa); sa.sa_sigaction = on_segv; sa.sa_flags = SA_SIGINFO | SA_NODEFER; sigaction(SIGSEGV, &sa, nullptr);
	randomx_verif_sink = sink;
	for (int h = 0; h < nhash; ++h) {
		std::vector<uint8_t> key = rng.bytes(h == 0 ? 0 : 1 + rng.below(90));
		std::vector<uint8_t> input = rng.bytes(h == 1 ? 0 : rng.below(300));
		g_v2 = (h % 2) == 1;
		randomx_cache* cache = randomx_alloc_cache(RANDOMX_FLAG_DEFAULT);
		randomx_init_cache(cache, key.data(), key.size());
		LVm* vm = new LVm(g_v2 ? RANDOMX_FLAG_V2 : RANDOMX_FLAG_DEFAULT); g_vm = vm;
		vm->setCache(cache); vm->allocate();
		uint8_t* own = vm->scratchpad; vm->scratchpad = g_sp;
		{ Line l; l.str("e", "h_begin").bytes("key", key).bytes("input", input).boolean("v2", g_v2); l.emit(out); }
		// 1-3: seed, scratchpad fill (first call of the pipelined interface does exactly these two steps)
		randomx_calculate_hash_first(vm, input.data(), input.size());
		// (the seed itself is consumed by the generator in place; the specification derives it from the input and checks block 0)
		const size_t nb = ScratchpadSize / 64;
		{ Line l; l.str("e", "h_fill0").limbs("block", g_sp, 64); l.emit(out); }
		auto link = [&](size_t k) { Line l; l.str("e", "h_fill").num("k", (long long)k).limbs("prev", g_sp + 64 * (k - 1), 64).limbs("block", g_sp + 64 * k, 64); l.emit(out); };
		link(1); link(nb - 1); for (int s = 0; s < (thorough ? 40 : 8); ++s) link(1 + rng.below((uint32_t)nb - 1));
		{ Line l; l.str("e", "h_fillend").limbs("last", g_sp + 64 * (nb - 1), 64).limbs("state", vm->tempHash, 64); l.emit(out); }
		// sampled loop iterations: first, second, last and seeded ones, in the first, a middle and the last program
		g_sample.clear();
		int progs[3] = { 1, 2 + (int)rng.below(6), 8 };
		for (int p : progs) { g_sample.insert({ p, 0 }); g_sample.insert({ p, (unsigned)(1 + rng.below(2046)) }); if (thorough) { g_sample.insert({ p, 1 }); g_sample.insert({ p, 2047 }); } }
		g_sample.insert({ 8, 2047 });
		g_prog = 1;
		// log every program buffer right before it runs: the "prog" event of program i-1 / the seed hand-over give the generator seed
		// (program i is generated inside run(); we log it from the hook of the NEXT event, see below) -> simpler: recompute via a second pass
		uint8_t digest[32];
		// capture the generator seeds: seed_1 = tempHash now; seed_{i+1} = Hash512(regfile_i) is logged by h_reg + spec
		randomx_calculate_hash_last(vm, digest);
		{ Line l; l.str("e", "h_final").limbs("reg", vm->getRegisterFile(), 256).bytes("out", digest, 32); l.emit(out); }
		// fingerprint chain links through prefix fingerprints of the final scratchpad
		auto fp = [&](size_t k) { alignas(16) uint8_t a[64], b[64]; hashAes1Rx4<true>(g_sp, 64 * (k - 1), a); hashAes1Rx4<true>(g_sp, 64 * k, b);
			Line l; l.str("e", "h_fp").num("k", (long long)k).limbs("hprev", a, 64).limbs("block", g_sp + 64 * (k - 1), 64).limbs("hnext", b, 64); l.emit(out); };
		fp(1); fp(nb); for (int s = 0; s < (thorough ? 40 : 8); ++s) fp(1 + rng.below((uint32_t)nb));
		{ alignas(16) uint8_t a[64]; hashAes1Rx4<true>(g_sp, ScratchpadSize, a); Line l; l.str("e", "h_fpfull").limbs("h", a, 64); if (thorough && h == 0) l.limbs("sp", g_sp, ScratchpadSize); l.emit(out); }
		vm->scratchpad = own;
		delete vm; randomx_release_cache(cache);
	}
	// the first arrow alone (input -> seed -> first scratchpad block) for input lengths around the 128-byte block boundaries of Blake2b
	{
		randomx_cache* cache = randomx_alloc_cache(RANDOMX_FLAG_DEFAULT);
		uint8_t k0[4] = { 1, 2, 3, 4 }; randomx_init_cache(cache, k0, 4);
		LVm* vm = new LVm(RANDOMX_FLAG_DEFAULT); g_vm = vm; vm->setCache(cache); vm->allocate();
		uint8_t* own = vm->scratchpad; vm->scratchpad = g_sp; randomx_verif_sink = nullptr;
		static const int lens[] = { 1, 63, 64, 65, 127, 128, 129, 255, 256, 257, 383, 384, 385, 512, 640, 1000, 1024, 4096 };
		for (int len : lens) {
			if (!thorough && len > 1100) continue;
			std::vector<uint8_t> input = rng.bytes(len);
			randomx_calculate_hash_first(vm, input.data(), input.size());
			Line l; l.str("e", "h_seed").bytes("input", input).limbs("block", g_sp, 64); l.emit(out);
		}
		vm->scratchpad = own; delete vm; randomx_release_cache(cache);
	}
	fclose(out);
	_exit(0);
}
