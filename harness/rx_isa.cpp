// rx_isa: per-instruction binding harness (C05, C18, C07 constants, C17 when built "portable").
// Drives BytecodeMachine::compileInstruction / executeInstruction of the real library on stratified
// (instruction word, register file, rounding mode, last-writer table) samples over a pattern
// scratchpad and records decode result and post-state.  Also records the IEEE primitives of the
// host (event "fp") and the reciprocal routines (event "rcp").  No oracle here.
// Build with -fno-access-control.
// usage: rx_isa --seed S --tier quick|thorough --part steps|fp|rcp|all --out FILE
#include "vh.hpp"
#include "bytecode_machine.hpp"
#include "instruction.hpp"
#include "program.hpp"
#include "reciprocal.h"
#include "intrin_portable.h"
#include "randomx.h"
#include <cmath>
#include <cfenv>
#include <thread>
#include <vector>

using namespace vh;
using namespace randomx;
static FILE* out;

static const uint64_t PATK = 0x9E3779B97F4A7C15ull;
static uint8_t* g_sp;
static uint64_t g_patseed;
static inline uint64_t pat(uint64_t idx) { return ((idx + 1) * PATK) ^ g_patseed; }
static void fill_pattern(uint64_t seed) { g_patseed = seed; uint64_t* q = (uint64_t*)g_sp; for (uint64_t i = 0; i < ScratchpadSize / 8; ++i) q[i] = pat(i); }

static const char* tname(InstructionType t) {
	static const char* n[] = { "IADD_RS","IADD_M","ISUB_R","ISUB_M","IMUL_R","IMUL_M","IMULH_R","IMULH_M","ISMULH_R","ISMULH_M","IMUL_RCP","INEG_R","IXOR_R","IXOR_M",
		"IROR_R","IROL_R","ISWAP_R","FSWAP_R","FADD_R","FADD_M","FSUB_R","FSUB_M","FSCAL_R","FMUL_R","FDIV_M","FSQRT_R","CBRANCH","CFROUND","ISTORE","NOP" };
	return n[(int)t];
}

struct State { uint64_t r[8]; uint64_t f[4][2], e[4][2], a[4][2]; uint32_t fprc; uint64_t emask[2]; };

static void to_native(const State& s, NativeRegisterFile& n) {
	for (int i = 0; i < 8; ++i) n.r[i] = s.r[i];
	for (int i = 0; i < 4; ++i) {
		double d[2];
		memcpy(d, s.f[i], 16); n.f[i] = rx_load_vec_f128(d);
		memcpy(d, s.e[i], 16); n.e[i] = rx_load_vec_f128(d);
		memcpy(d, s.a[i], 16); n.a[i] = rx_load_vec_f128(d);
	}
}
static void from_native(State& s, const NativeRegisterFile& n) {
	for (int i = 0; i < 8; ++i) s.r[i] = n.r[i];
	for (int i = 0; i < 4; ++i) {
		alignas(16) double d[2];
		rx_store_vec_f128(d, n.f[i]); memcpy(s.f[i], d, 16);
		rx_store_vec_f128(d, n.e[i]); memcpy(s.e[i], d, 16);
		rx_store_vec_f128(d, n.a[i]); memcpy(s.a[i], d, 16);
	}
}
static std::string fgroup(const uint64_t g[4][2]) {
	std::string s = "[";
	for (int i = 0; i < 4; ++i) { if (i) s += ","; s += "[" + json_limbs(&g[i][0], 8) + "," + json_limbs(&g[i][1], 8) + "]"; }
	return s + "]";
}

// ------------------------------------------------------------------------------------------------
// value classes
// ------------------------------------------------------------------------------------------------
static const uint32_t H32[] = { 0, 1, 2, 0x7fffffffu, 0x80000000u, 0xffffffffu, 0x0000ffffu, 0x00010000u };
static uint64_t int_value(Rng& rng) {
	switch (rng.below(6)) {
	case 0: return ((uint64_t)H32[rng.below(8)] << 32) | H32[rng.below(8)];    // carry-chain corner values in both halves
	case 1: return 1ull << rng.below(64);
	case 2: return (1ull << rng.below(64)) - 1;
	case 3: return (uint64_t)(int64_t)(int32_t)rng.next();
	default: return rng.next();
	}
}
static uint64_t a_value(Rng& rng) { uint64_t en = rng.next(); uint64_t ex = (en >> 59) + 1023; uint64_t m = en & ((1ull << 52) - 1); if (rng.below(8) == 0) m = 0; if (rng.below(16) == 0) m = (1ull << 52) - 1; return (ex << 52) | m; }
static uint64_t cvt_i32(int32_t x) { double d = (double)x; uint64_t b; memcpy(&b, &d, 8); return b; }
static uint64_t f_value(Rng& rng, const State& s) {
	switch (rng.below(5)) {
	case 0: { static const int32_t c[] = { 0, 1, -1, 2147483647, (int32_t)0x80000000, 5, -5 }; return cvt_i32(c[rng.below(7)]); }
	case 1: return cvt_i32((int32_t)rng.next());
	case 2: { uint64_t v = s.a[rng.below(4)][rng.below(2)]; return v ^ (rng.below(2) ? (1ull << 63) : 0); }     // +-a: exact cancellation with FADD/FSUB
	case 3: { double d = (double)(int32_t)rng.next() * 65536.0 * (double)(1 + rng.below(1000)); uint64_t b; memcpy(&b, &d, 8); return b; } // up to ~1e17
	default: { uint64_t b = cvt_i32((int32_t)rng.next()); return b ^ 0x80F0000000000000ull; }                      // after FSCAL
	}
}
static uint64_t e_value(Rng& rng, const State& s) {
	uint64_t conv = (cvt_i32((int32_t)rng.next()) & ((1ull << 56) - 1)) | s.emask[rng.below(2)];
	switch (rng.below(6)) {
	case 0: return conv;
	case 1: return 0x7FF0000000000000ull;                                   // +inf (legal for group E)
	case 2: return 0x7FEFFFFFFFFFFFFFull - rng.below(4);                    // near the largest finite value: overflow in directed modes
	case 3: return ((uint64_t)(0x300 + rng.below(0x4ff)) << 52) | (rng.next() & ((1ull << 52) - 1));   // wide exponent range, positive
	case 4: return ((uint64_t)(0x300 + rng.below(0x100)) << 52);            // exact powers of two (exact sqrt / ties)
	default: return conv | (rng.next() & 0xfffff);
	}
}
static uint64_t emask_value(Rng& rng) { uint64_t en = rng.next(); uint64_t ex = 0x300 | ((en >> 60) << 4); return (en & ((1ull << 22) - 1)) | (ex << 52); }

static void random_state(Rng& rng, State& s) {
	for (int i = 0; i < 8; ++i) s.r[i] = int_value(rng);
	s.emask[0] = emask_value(rng); s.emask[1] = emask_value(rng);
	for (int i = 0; i < 4; ++i) for (int j = 0; j < 2; ++j) s.a[i][j] = a_value(rng);
	for (int i = 0; i < 4; ++i) for (int j = 0; j < 2; ++j) { s.f[i][j] = f_value(rng, s); s.e[i][j] = e_value(rng, s); }
	s.fprc = rng.below(4);
}

static uint32_t imm_value(Rng& rng) {
	switch (rng.below(8)) {
	case 0: { static const uint32_t c[] = { 0, 1, 2, 3, 0x7fffffffu, 0x80000000u, 0x80000001u, 0xffffffffu, 0xfffffffeu, 64, 63, 13 }; return c[rng.below(12)]; }
	case 1: return 1u << rng.below(32);
	case 2: return (1u << rng.below(32)) - 1;
	case 3: return (1u << rng.below(32)) + 1;
	case 4: return rng.below(2097152) & ~7u;        // in-range aligned address
	default: return (uint32_t)rng.next();
	}
}

// ------------------------------------------------------------------------------------------------
static bool g_grid = false; static uint64_t g_gridA, g_gridB;
static uint32_t g_forceImm = 0; static bool g_useForceImm = false; static int g_forceDst = -1;
static bool g_memDirected = false; static uint64_t g_memWord = 0; static int g_forceFprc = -1;   // directed memory operand: the word the instruction reads
static void step(Rng& rng, uint8_t opcode, bool v2, int force) {
	State s; random_state(rng, s);
	uint8_t w[8];
	w[0] = opcode;
	w[1] = (uint8_t)rng.next(); w[2] = (uint8_t)rng.next();
	if (force == 1) w[2] = (uint8_t)((w[1] & 7) | (rng.next() & 0xf8));            // src == dst
	if (force == 2) w[1] = (uint8_t)(5 | (rng.next() & 0xf8));                      // dst = r5 (IADD_RS displacement)
	w[3] = (uint8_t)rng.next();
	if (force == 3) w[3] = (uint8_t)((14 + rng.below(2)) << 4 | (rng.next() & 15)); // mod.cond >= 14
	uint32_t imm = g_useForceImm ? g_forceImm : imm_value(rng); memcpy(w + 4, &imm, 4);
	if (g_forceDst >= 0) w[1] = (uint8_t)(g_forceDst | (rng.next() & 0xf8));
	// make address registers often small so that all scratchpad levels are hit with distinguishable addresses
	if (!g_grid && rng.below(2)) s.r[w[2] & 7] = (uint64_t)(rng.next() & 0x3fffff);
	if (g_grid) { w[1] = 0; w[2] = 1; s.r[0] = g_gridA; s.r[1] = g_gridB; }
	if (force == 4) { // CBRANCH: make the condition bits of dst+cimm zero with probability ~1/2
		int b = (w[3] >> 4) + 8; uint64_t cimm = (uint64_t)(int64_t)(int32_t)imm | (1ull << b); cimm &= ~(1ull << (b - 1));
		uint64_t want = rng.next() & ~(255ull << b); if (rng.below(2)) want |= (uint64_t)(1 + rng.below(255)) << b;
		s.r[w[1] & 7] = want - cimm;
	}
	uint32_t memAddr = 0;
	if (g_memDirected) { // src != dst, src register 0, immediate = an aligned L1 address: the operand is the scratchpad word at that address
		w[2] = (uint8_t)(((w[1] & 7) + 1 + rng.below(7)) % 8 | (rng.next() & 0xf8));
		s.r[w[2] & 7] = 0; memAddr = (uint32_t)rng.below(2048) * 8; memcpy(w + 4, &memAddr, 4);
		if (g_forceFprc >= 0) s.fprc = (uint32_t)g_forceFprc;
	}
	int idx = (int)rng.below(384);
	int usage[8]; for (int k = 0; k < 8; ++k) usage[k] = rng.below(3) ? (int)rng.below((uint32_t)idx + 1) - 1 : -1;
	uint64_t seed = rng.next();
	if (g_memDirected) seed = ((uint64_t)(memAddr / 8 + 1) * PATK) ^ g_memWord;      // the pattern word at memAddr is exactly g_memWord
	fill_pattern(seed);

	NativeRegisterFile nreg; to_native(s, nreg);
	ProgramConfiguration config; memset(&config, 0, sizeof config); config.eMask[0] = s.emask[0]; config.eMask[1] = s.emask[1];
	BytecodeMachine bm; bm.beginCompilation(nreg);
	for (int k = 0; k < 8; ++k) bm.registerUsage[k] = usage[k];
	Instruction instr; memcpy(&instr, w, 8);
	InstructionByteCode ibc; memset(&ibc, 0, sizeof ibc);
	bm.compileInstruction(instr, idx, ibc);
	randomx_flags flags = v2 ? RANDOMX_FLAG_V2 : RANDOMX_FLAG_DEFAULT;
	rx_reset_float_state(); rx_set_rounding_mode(s.fprc);
	int pc = idx;
	BytecodeMachine::executeInstruction(ibc, pc, g_sp, config, flags);
	uint32_t fprc2 = rx_get_rounding_mode();
	rx_reset_float_state();
	State t = s; from_native(t, nreg);
	// stores: every scratchpad qword that no longer holds the pattern
	std::string st = "[";
	{ const uint64_t* q = (const uint64_t*)g_sp; int n = 0; for (uint64_t i = 0; i < ScratchpadSize / 8; ++i) if (q[i] != pat(i)) { if (n++ < 4) { char b[64]; snprintf(b, sizeof b, "%s[%llu,", n > 1 ? "," : "", (unsigned long long)(i * 8)); st += b; st += json_limbs(&q[i], 8) + "]"; } } }
	st += "]";
	std::vector<long long> u0(usage, usage + 8), u1(bm.registerUsage, bm.registerUsage + 8);
	Line l;
	l.str("e", "step").bytes("w", w, 8).num("i", idx).boolean("v2", v2).nums("usage", u0).words("r", s.r, 8).raw("f", fgroup(s.f)).raw("e_", fgroup(s.e)).raw("a", fgroup(s.a))
		.num("fprc", s.fprc).words("emask", s.emask, 2).w64("pat", seed);
	bool isBranch = ibc.type == InstructionType::CBRANCH;
	l.str("type", tname(ibc.type)).w64("imm", ibc.imm).num("mask", isBranch ? 0 : (long long)ibc.memMask).num("target", isBranch ? (long long)ibc.target : -1)
		.num("cshift", isBranch ? (long long)(__builtin_ctz(ibc.memMask ? ibc.memMask : 1)) : 0)
		.nums("usage2", u1).words("r2", t.r, 8).raw("f2", fgroup(t.f)).raw("e2", fgroup(t.e)).num("fprc2", fprc2).num("pc2", pc + 1).raw("stores", st);
	l.emit(out);
}

static uint64_t hwop(int op, int rc, uint64_t x, uint64_t y) {
	rx_reset_float_state(); rx_set_rounding_mode((uint32_t)rc);
	volatile double a, b, r; memcpy((void*)&a, &x, 8); memcpy((void*)&b, &y, 8);
	switch (op) { case 0: r = a + b; break; case 1: r = a - b; break; case 2: r = a * b; break; case 3: r = a / b; break; default: r = sqrt((double)a); }
	double rr = r; rx_reset_float_state();
	uint64_t o; memcpy(&o, &rr, 8); return o;
}
static void fp_events(Rng& rng, int n) {
	static const char* names[] = { "add", "sub", "mul", "div", "sqrt" };
	State s;
	for (int i = 0; i < n; ++i) {
		random_state(rng, s);
		int op = (int)rng.below(5), rc = (int)rng.below(4);
		uint64_t x, y;
		if (op <= 1) { x = f_value(rng, s); y = rng.below(3) ? s.a[0][0] : f_value(rng, s); if (rng.below(6) == 0) y = (op == 0) ? (x ^ (1ull << 63)) : x; }
		else if (op == 2) { x = e_value(rng, s); y = a_value(rng); }
		else if (op == 3) { x = e_value(rng, s); y = (cvt_i32((int32_t)rng.next()) & ((1ull << 56) - 1)) | s.emask[0]; }
		else { x = e_value(rng, s); y = x; }
		uint64_t r = hwop(op, rc, x, y);
		Line l; l.str("e", "fp").str("op", names[op]).num("rc", rc).w64("x", x).w64("y", y).w64("r", r); l.emit(out);
	}
}

static void rcp_events(Rng& rng, int n) {
	auto ev = [&](uint32_t d) { uint64_t a = randomx_reciprocal(d), b = randomx_reciprocal_fast(d); Line l; l.str("e", "rcp").limbs("d", &d, 4).w64("r", a).w64("rfast", b); l.emit(out); };
	ev(3); ev(5); ev(6); ev(7); ev(9); ev(0xffffffffu); ev(0xfffffffeu); ev(0x80000001u); ev(0x7fffffffu);
	for (int k = 1; k < 32; ++k) { ev((1u << k) + 1); if (k > 1) ev((1u << k) - 1); if (k > 1) ev((1u << k) + (1u << (k - 1))); }
	for (int i = 0; i < n; ++i) { uint32_t d; do { d = (uint32_t)rng.next(); if (rng.below(4) == 0) d >>= rng.below(31); } while (d == 0 || (d & (d - 1)) == 0); ev(d); }
}

int main(int argc, char** argv) {
	uint64_t seed = strtoull(arg(argc, argv, "--seed", "1"), nullptr, 10);
	bool thorough = !strcmp(arg(argc, argv, "--tier", "quick"), "thorough");
	std::string part = arg(argc, argv, "--part", "all");
	out = fopen(arg(argc, argv, "--out", "/dev/stdout"), "w");
	g_sp = (uint8_t*)aligned_alloc(64, ScratchpadSize);
	Rng rng(seed);
	if (part == "steps" || part == "all") {
		int per = thorough ? 60 : 14;
		for (int op = 0; op < 256; ++op) {
			for (int k = 0; k < per; ++k) step(rng, (uint8_t)op, (k & 1) != 0, 0);
			step(rng, (uint8_t)op, false, 1); step(rng, (uint8_t)op, true, 1);     // src == dst
			if (op < 16) { step(rng, (uint8_t)op, false, 2); step(rng, (uint8_t)op, true, 2); }
			if (op >= 240) { step(rng, (uint8_t)op, false, 3); step(rng, (uint8_t)op, true, 3); }
			if (op >= 214 && op <= 238) for (int k = 0; k < (thorough ? 12 : 3); ++k) step(rng, (uint8_t)op, (k & 1) != 0, 4);
			if (op == 239) for (int k = 0; k < (thorough ? 200 : 40); ++k) step(rng, (uint8_t)op, (k & 1) != 0, 0);   // CFROUND: one opcode, many rotate counts / guards
			if (op >= 76 && op <= 83) for (int k = 0; k < (thorough ? 20 : 4); ++k) step(rng, (uint8_t)op, false, 0);  // IMUL_RCP: more immediates (incl. powers of two)
		}
	}
	if (part == "mulgrid" || part == "all") { // high multiplication: full grid of carry-chain corner operands (32x32 partial products)
		static const uint32_t G[] = { 0, 1, 2, 0x7fffffffu, 0x80000000u, 0xffffffffu, 0xfffffffeu, 0x80000001u };
		for (int a = 0; a < 64; ++a) for (int b = 0; b < 64; ++b) {
			uint64_t x = ((uint64_t)G[a >> 3] << 32) | G[a & 7], y = ((uint64_t)G[b >> 3] << 32) | G[b & 7];
			g_gridA = x; g_gridB = y; g_grid = true;
			step(rng, (uint8_t)(((a + b) & 1) ? 66 : 71), false, 0);
			if (thorough || ((a * 64 + b) % 4 == 0)) step(rng, (uint8_t)(((a + b) & 1) ? 71 : 66), true, 0);
		}
		g_grid = false;
	}
	if (part == "memops" || part == "all") { // memory-operand instructions on directed operand words: zero / one / sign boundaries in each 32-bit half, every rounding mode
		static const uint32_t H[] = { 0, 1, 0x7fffffffu, 0x80000000u, 0xffffffffu };
		static const uint8_t mops[] = { 16, 39, 62, 70, 75, 101, 140, 161, 204 };
		g_memDirected = true;
		for (uint8_t op : mops) for (int a = 0; a < 5; ++a) for (int b = 0; b < 5; ++b) for (int rc = 0; rc < 4; ++rc) {
			if (op < 120 && rc > 0) continue;                       // integer instructions do not depend on the rounding mode
			g_memWord = ((uint64_t)H[a] << 32) | H[b]; g_forceFprc = rc;
			step(rng, op, ((a + b + rc) & 1) != 0, 0);
		}
		g_memDirected = false; g_forceFprc = -1;
	}
	if (part == "rcpnoop" || part == "all") { // IMUL_RCP with every no-op divisor (0 and all powers of two) on every destination register
		g_useForceImm = true;
		for (int k = -1; k < 32; ++k) for (int d = 0; d < 8; ++d) { g_forceImm = k < 0 ? 0u : (1u << k); g_forceDst = d; step(rng, (uint8_t)(76 + (d + k + 1) % 8), (k & 1) != 0, 0); }
		// and neighbours that are NOT no-ops
		for (int k = 1; k < 32; ++k) { g_forceDst = k % 8; g_forceImm = (1u << k) + 1; step(rng, 76, false, 0); g_forceImm = (1u << k) - 1; if (k > 1) step(rng, 77, true, 0); }
		g_forceImm = 0x80000000u; g_forceDst = 3; step(rng, 78, false, 0); g_forceImm = 0x80000001u; step(rng, 78, false, 0); g_forceImm = 0x7fffffffu; step(rng, 78, false, 0);
		g_useForceImm = false; g_forceDst = -1;
	}
	if (part == "sweep") { // all 2^32 divisors: portable vs assembly routine, and the defining inequality with 128-bit integers (measured counts)
		// quick tier: every 32nd divisor from a seeded offset (2^27 divisors); thorough: all of them
		unsigned nt = 16; std::vector<unsigned long long> mism(nt, 0), notrcp(nt, 0), cnt(nt, 0);
		uint64_t stride = thorough ? 1 : 32, off = thorough ? 0 : rng.below(32);
		std::vector<std::thread> th;
		for (unsigned t = 0; t < nt; ++t) th.emplace_back([&, t] {
			for (uint64_t d = 3 + off + stride * t; d < (1ull << 32); d += stride * nt) {
				if ((d & (d - 1)) == 0) continue;
				uint64_t a = randomx_reciprocal((uint32_t)d), b = randomx_reciprocal_fast((uint32_t)d);
				if (a != b) ++mism[t];
				unsigned bl = 64 - (unsigned)__builtin_clzll(d);
				unsigned __int128 top = (unsigned __int128)1 << (63 + bl);
				if (!((unsigned __int128)a * d <= top && top < ((unsigned __int128)a + 1) * d)) ++notrcp[t];
				++cnt[t];
			}});
		for (auto& x : th) x.join();
		unsigned long long m = 0, n = 0, c = 0; for (unsigned t = 0; t < nt; ++t) { m += mism[t]; n += notrcp[t]; c += cnt[t]; }
		// counts can exceed 2^31 (TLC integers are 32-bit): 16-bit limbs
		auto limbs3 = [](unsigned long long v) { return std::vector<long long>{ (long long)(v & 0xffff), (long long)((v >> 16) & 0xffff), (long long)(v >> 32) }; };
		Line l; l.str("e", "sweep").nums("divisors", limbs3(c)).nums("mismatch", limbs3(m)).nums("notrcp", limbs3(n)); l.emit(out);
	}
	if (part == "fp" || part == "all") fp_events(rng, thorough ? 40000 : 3000);
	if (part == "rcp" || part == "all") rcp_events(rng, thorough ? 20000 : 1500);
	fclose(out);
	return 0;
}
