// rx_port: results of one build of the tree through the public API only, for comparison between the
// default build and the portable build (C17): digests (interpreter, light mode; first/next/last),
// the register file after each of the 8 programs (hook event "prog"), the caller's rounding
// direction before/after (fenv), and dataset items.  No oracle here.
// usage: rx_port --seed S --tier T --build NAME --out FILE
#include "vh.hpp"
#include "randomx.h"
#include "dataset.hpp"
#include "virtual_machine.hpp"
#include "verif_hooks.h"
#include <cfenv>
#include <string>
#include <vector>

using namespace vh;
static FILE* out;
static std::string g_build, g_key, g_input; static bool g_v2;
static std::string hex(const void* p, size_t n) { static const char* d = "0123456789abcdef"; std::string s; const uint8_t* b = (const uint8_t*)p; for (size_t i = 0; i < n; ++i) { s += d[b[i] >> 4]; s += d[b[i] & 15]; } return s; }
static void sink(const char* ev, const void* obj, unsigned long long a, unsigned long long b) {
	if (!strcmp(ev, "prog")) {
		randomx_vm* vm = (randomx_vm*)obj;
		Line l; l.str("e", "prog").str("build", g_build).str("key", g_key).str("input", g_input).boolean("v2", g_v2).num("idx", (long long)b).str("regs", hex(vm->getRegisterFile(), 256));
		l.emit(out);
	}
}
static const int RMODES[] = { FE_TONEAREST, FE_DOWNWARD, FE_UPWARD, FE_TOWARDZERO };
static int rmode_index(int m) { for (int i = 0; i < 4; ++i) if (RMODES[i] == m) return i; return -1; }

int main(int argc, char** argv) {
	uint64_t seed = strtoull(arg(argc, argv, "--seed", "1"), nullptr, 10);
	bool thorough = !strcmp(arg(argc, argv, "--tier", "quick"), "thorough");
	g_build = arg(argc, argv, "--build", "default");
	out = fopen(arg(argc, argv, "--out", "/dev/stdout"), "w");
	Rng rng(seed);
	randomx_verif_sink = sink;
	int nkeys = thorough ? 4 : 2, ninputs = thorough ? 6 : 3;
	for (int k = 0; k < nkeys; ++k) {
		std::vector<uint8_t> key = rng.bytes(k == 0 ? 0 : 1 + rng.below(90));
		g_key = "k" + std::to_string(k);
		randomx_cache* cache = randomx_alloc_cache(RANDOMX_FLAG_DEFAULT);
		randomx_init_cache(cache, key.data(), key.size());
		// dataset items through the light-mode item function
		for (int i = 0; i < (thorough ? 400 : 60); ++i) {
			uint64_t idx = i < 4 ? (uint64_t)i : (i < 8 ? randomx_dataset_item_count() - 1 - (uint64_t)(i - 4) : rng.below(34078719u));
			uint8_t item[64]; randomx::initDatasetItem(cache, item, idx);
			Line l; l.str("e", "item").str("build", g_build).str("key", g_key).num("hi", (long long)(idx >> 16)).num("lo", (long long)(idx & 0xffff)).str("bytes", hex(item, 64)); l.emit(out);
		}
		for (int v2 = 0; v2 < 2; ++v2) {
			randomx_vm* vm = randomx_create_vm(v2 ? RANDOMX_FLAG_V2 : RANDOMX_FLAG_DEFAULT, cache, nullptr);
			g_v2 = v2 != 0;
			std::vector<std::vector<uint8_t>> inputs;
			for (int i = 0; i < ninputs; ++i) inputs.push_back(rng.bytes(i == 0 ? 0 : rng.below(200)));
			for (int i = 0; i < ninputs; ++i) {
				g_input = "i" + std::to_string(i);
				int mode = RMODES[(i + k + v2) % 4];
				fesetround(mode);
				uint8_t h[32]; randomx_calculate_hash(vm, inputs[i].data(), inputs[i].size(), h);
				int after = fegetround(); fesetround(FE_TONEAREST);
				Line l; l.str("e", "hash").str("build", g_build).str("key", g_key).str("input", g_input).boolean("v2", g_v2).str("api", "single")
					.num("rcBefore", rmode_index(mode)).num("rcAfter", rmode_index(after)).str("out", hex(h, 32)).num("vmflags", v2 ? 128 : 0);
				l.emit(out);
			}
			// pipelined interface under a directed caller mode
			randomx_verif_sink = nullptr;
			fesetround(FE_UPWARD);
			uint8_t h[32];
			randomx_calculate_hash_first(vm, inputs[0].data(), inputs[0].size());
			for (int i = 1; i < ninputs; ++i) {
				fesetround(RMODES[i % 4]);
				randomx_calculate_hash_next(vm, inputs[i].data(), inputs[i].size(), h);
				fesetround(FE_TONEAREST);
				Line l; l.str("e", "hash").str("build", g_build).str("key", g_key).str("input", "i" + std::to_string(i - 1)).boolean("v2", g_v2).str("api", "pipe").num("rcBefore", -1).num("rcAfter", -1).str("out", hex(h, 32)).num("vmflags", v2 ? 128 : 0); l.emit(out);
			}
			fesetround(FE_DOWNWARD);
			randomx_calculate_hash_last(vm, h);
			fesetround(FE_TONEAREST);
			{ Line l; l.str("e", "hash").str("build", g_build).str("key", g_key).str("input", "i" + std::to_string(ninputs - 1)).boolean("v2", g_v2).str("api", "pipe").num("rcBefore", -1).num("rcAfter", -1).str("out", hex(h, 32)).num("vmflags", v2 ? 128 : 0); l.emit(out); }
			randomx_verif_sink = sink;
			randomx_destroy_vm(vm);
		}
		randomx_release_cache(cache);
	}
	fclose(out);
	return 0;
}
