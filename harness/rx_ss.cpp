// rx_ss: SuperscalarHash binding harness (C09, item part of C08/C02). For seeded keys records the eight
// generated programs, results of the program interpreter on seeded registers, and dataset items
// computed by the interpreted item function and by the JIT-compiled dataset initialiser over a
// PATTERN cache (line k, word j = ((8k+j+1)*K) ^ seed, materialised on first touch).  No oracle here.
// Build with -fno-access-control.   usage: rx_ss --seed S --tier T --out FILE
#include "vh.hpp"
#include "randomx.h"
#include "dataset.hpp"
#include "superscalar.hpp"
#include "blake2_generator.hpp"
#include "jit_compiler.hpp"
#include "reciprocal.h"
#include <csignal>
#include <sys/mman.h>
#include <vector>
#include <string>

using namespace vh;
using namespace randomx;
static FILE* out;
static const uint64_t PATK = 0x9E3779B97F4A7C15ull;
static uint64_t g_pat; static uint8_t* g_mem; static std::vector<uint8_t*> g_pages;
static void on_segv(int, siginfo_t* si, void*) {
	uint8_t* a = (uint8_t*)si->si_addr;
	if (a >= g_mem && a < g_mem + CacheSize) {
		uint8_t* pg = (uint8_t*)((uintptr_t)a & ~(uintptr_t)4095);
		mprotect(pg, 4096, PROT_READ | PROT_WRITE);
		uint64_t* q = (uint64_t*)pg; uint64_t base = (uint64_t)(pg - g_mem) / 8;
		for (int k = 0; k < 512; ++k) q[k] = ((base + k + 1) * PATK) ^ g_pat;
		g_pages.push_back(pg);
		return;
	}
	const char* m = "{\"e\":\"Crash\",\"during\":\"rx_ss\"}\n"; fflush(out); (void)!write(fileno(out), m, strlen(m)); _exit(0);
}
static void cache_reset(uint64_t pat) { for (auto p : g_pages) { madvise(p, 4096, MADV_DONTNEED); mprotect(p, 4096, PROT_NONE); } g_pages.clear(); g_pat = pat; }

static uint64_t reg_value(Rng& rng) {
	static const uint32_t H[] = { 0, 1, 2, 0x7fffffffu, 0x80000000u, 0xffffffffu };
	switch (rng.below(4)) { case 0: return ((uint64_t)H[rng.below(6)] << 32) | H[rng.below(6)]; case 1: return 1ull << rng.below(64); default: return rng.next(); }
}

static std::string progs_json(randomx_cache& cache) {
	std::string progs = "[";
	for (int i = 0; i < RANDOMX_CACHE_ACCESSES; ++i) {
		SuperscalarProgram& p = cache.programs[i];
		if (i) progs += ",";
		progs += "{\"size\":" + std::to_string(p.getSize()) + ",\"addr\":" + std::to_string(p.getAddressRegister()) + ",\"ins\":[";
		for (unsigned j = 0; j < p.getSize(); ++j) { Instruction& in = p(j); uint32_t imm = in.getImm32(); char b[96]; snprintf(b, sizeof b, "%s[%u,%u,%u,%u,%u,%u]", j ? "," : "", in.opcode, in.dst, in.src, in.mod, imm & 0xffff, imm >> 16); progs += b; }
		progs += "]}";
	}
	return progs + "]";
}

// program interpreter on seeded registers, then items by the interpreted item function and by the compiled initialiser
// the program interpreter on seeded registers
static void exec_events(randomx_cache& cache, Rng& rng, bool thorough) {
	for (int i = 0; i < RANDOMX_CACHE_ACCESSES; ++i) for (int rep = 0; rep < (thorough ? 6 : 2); ++rep) {
		uint64_t r[8], r0[8]; for (int q = 0; q < 8; ++q) r0[q] = r[q] = reg_value(rng);
		executeSuperscalar(r, cache.programs[i], nullptr);
		Line l; l.str("e", "exec").num("prog", i).words("r", r0, 8).words("out", r, 8); l.emit(out);
	}
}
// for a cache object assembled by the harness (synthetic programs): what initCache does after generating the programs
static void finish_cache(randomx_cache& cache) {
	cache.reciprocalCache.clear();
	for (int i = 0; i < RANDOMX_CACHE_ACCESSES; ++i) for (unsigned j = 0; j < cache.programs[i].getSize(); ++j) {
		auto& in = cache.programs[i](j);
		if ((SuperscalarInstructionType)in.opcode == SuperscalarInstructionType::IMUL_RCP) { auto rcp = randomx_reciprocal(in.getImm32()); in.setImm32((uint32_t)cache.reciprocalCache.size()); cache.reciprocalCache.push_back(rcp); }
	}
	cache.jit->generateSuperscalarHash(cache.programs, cache.reciprocalCache);
	cache.jit->generateDatasetInitCode();
}
// items by the interpreted item function and by the compiled initialiser of `cache`, over the pattern memory
static void item_events(randomx_cache* cache, randomx::DatasetInitFunc* native, Rng& rng, bool thorough) {
	for (int it = 0; it < (thorough ? 12 : 4); ++it) {
		uint64_t item = it == 0 ? 0 : (it == 1 ? 34078715 : (it == 2 ? 4194303 : rng.below(34078716u)));
		item &= ~3ull;
		uint64_t pat = rng.next();
		cache_reset(pat);
		alignas(64) uint8_t a[64 * 4], b[64 * 4];
		for (int q = 0; q < 4; ++q) initDatasetItem(cache, a + 64 * q, item + q);
		cache_reset(pat);
		native(cache, b, (uint32_t)item, (uint32_t)item + 4);
		for (int q = 0; q < 4; ++q) {
			uint32_t n = (uint32_t)(item + q);
			Line l; l.str("e", "item").limbs("item", &n, 4).w64("pat", pat).words("interp", (const uint64_t*)(a + 64 * q), 8).words("native", (const uint64_t*)(b + 64 * q), 8); l.emit(out);
			if (!thorough && q >= 1) break;
		}
	}
}
// immediates of the classes an encoder can get wrong: around the imm8 / imm16 / imm32 sign boundaries
static uint32_t imm_class(Rng& rng) {
	static const uint32_t C[] = { 0, 1, 2, 3, 0x7e, 0x7f, 0x80, 0x81, 0xfe, 0xff, 0x100, 0x101, 0x7fff, 0x8000, 0xffff, 0x10000, 0x7fffff, 0x800000, 0x7ffffffe, 0x7fffffff,
		0x80000000u, 0x80000001u, 0xffffff7fu, 0xffffff80u, 0xffffff81u, 0xffffffffu, 0xfffffffeu, 0xffff8000u, 0xffff7fffu, 0xffff0000u };
	switch (rng.below(4)) { case 0: return (uint32_t)rng.next(); case 1: return (uint32_t)rng.below(512); default: return C[rng.below(sizeof C / sizeof C[0])]; }
}
// a well-formed SuperscalarHash program (Table 6.1.1 rules) that no key needs to produce
static void synth_program(SuperscalarProgram& p, Rng& rng, unsigned size) {
	for (unsigned j = 0; j < size; ++j) {
		Instruction& in = p(j);
		unsigned op = rng.below(14), dst = rng.below(8), src = rng.below(8), mod = rng.below(256); uint32_t imm = 0;
		auto t = (SuperscalarInstructionType)op;
		switch (t) {
		case SuperscalarInstructionType::ISUB_R: case SuperscalarInstructionType::IXOR_R: case SuperscalarInstructionType::IMUL_R:
			while (src == dst) src = rng.below(8); break;
		case SuperscalarInstructionType::IADD_RS:
			while (dst == 5) dst = rng.below(8); while (src == dst) src = rng.below(8); break;
		case SuperscalarInstructionType::IMULH_R: case SuperscalarInstructionType::ISMULH_R:
			imm = (uint32_t)rng.next(); break;                       // (the generator leaves a tag here; not an operand)
		case SuperscalarInstructionType::IROR_C:
			src = dst; do { imm = rng.below(2) ? rng.below(64) : imm_class(rng); } while ((imm & 63) == 0); break;
		case SuperscalarInstructionType::IMUL_RCP:
			src = dst; do { imm = imm_class(rng); } while (isZeroOrPowerOf2(imm)); break;
		default: // IADD_C7..9, IXOR_C7..9
			src = dst; imm = imm_class(rng); break;
		}
		in.opcode = op; in.dst = dst; in.src = src; in.mod = mod; in.setImm32(imm);
	}
	p.setSize(size);
	p.setAddressRegister(rng.below(8));
}

int main(int argc, char** argv) {
	uint64_t seed = strtoull(arg(argc, argv, "--seed", "1"), nullptr, 10);
	bool thorough = !strcmp(arg(argc, argv, "--tier", "quick"), "thorough");
	int nkeys = atoi(arg(argc, argv, "--keys", thorough ? "24" : "3"));
	out = fopen(arg(argc, argv, "--out", "/dev/stdout"), "w");
	Rng rng(seed);
	g_mem = (uint8_t*)mmap(nullptr, CacheSize, PROT_NONE, MAP_PRIVATE | MAP_ANONYMOUS | MAP_NORESERVE, -1, 0);
	struct sigaction sa; memset(&sa, 0, sizeof sa); sa.sa_sigaction = on_segv; sa.sa_flags = SA_SIGINFO | SA_NODEFER; sigaction(SIGSEGV, &sa, nullptr);
	for (int k = 0; k < nkeys; ++k) {
		// keys: lengths 0..200; only the first 60 bytes seed the generator (a second key sharing them must give the same programs)
		size_t klen = k == 0 ? 0 : (k == 1 ? 60 : (k == 2 ? 200 : rng.below(120)));
		std::vector<uint8_t> key = rng.bytes(klen);
		// the programs as the generator produces them from the key (logged with their divisors) ...
		randomx_cache probe;
		Blake2Generator gen(key.data(), key.size());
		for (int i = 0; i < RANDOMX_CACHE_ACCESSES; ++i) generateSuperscalar(probe.programs[i], gen);
		{ Line l; l.str("e", "ss").bytes("key", key).raw("progs", progs_json(probe)); l.emit(out); }
		exec_events(probe, rng, thorough);
		// ... and the cache object as the LIBRARY builds it from the same key (randomx_init_cache: programs, reciprocal table, compiled
		// initialiser); only its 256 MiB memory is exchanged for the pattern memory so that the specification knows every cache line
		randomx_cache* cache = randomx_alloc_cache(RANDOMX_FLAG_JIT);
		randomx_init_cache(cache, key.data(), key.size());
		uint8_t* real = cache->memory; cache->memory = g_mem;
		item_events(cache, cache->datasetInit, rng, thorough);
		cache->memory = real;
		randomx_release_cache(cache);
	}
	// synthetic program sets
	int nsynth = atoi(arg(argc, argv, "--synth", thorough ? "160" : "16"));
	for (int k = 0; k < nsynth; ++k) {
		randomx_cache cache;
		cache.memory = g_mem; cache.jit = new JitCompiler(); cache.jit->enableAll();
		for (int i = 0; i < RANDOMX_CACHE_ACCESSES; ++i) synth_program(cache.programs[i], rng, k == 0 && i == 0 ? 1 : (k == 1 && i == 0 ? 512 : 24 + rng.below(72)));
		{ Line l; l.str("e", "ssp").raw("progs", progs_json(cache)); l.emit(out); }
		exec_events(cache, rng, thorough);
		finish_cache(cache);
		item_events(&cache, cache.jit->getDatasetInitFunc(), rng, thorough);
		delete cache.jit;
	}
	fclose(out);
	_exit(0);
}
