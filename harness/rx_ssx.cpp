// rx_ssx: drives the real SuperscalarHash generator along SCRIPTED random-byte streams. Built against the
// shared-object form of the library; this executable defines randomx_blake2b, so the generator's
// refill (S = Hash512(S)) is served from a prepared list of 64-byte blocks instead. Byte streams are
// drawn from skewed distributions so that rare paths are frequent (IMUL_RCP re-draws on zero / powers
// of two, IROR_C zero counts, register starvation, look-ahead, throw-away).  No oracle here.
// usage: rx_ssx --seed S --tier T --out FILE
#include "vh.hpp"
#include "superscalar.hpp"
#include "blake2_generator.hpp"
#include <vector>
#include <string>

using namespace vh;
using namespace randomx;
static std::vector<std::vector<uint8_t>> g_blocks; static size_t g_next = 0;
extern "C" int randomx_blake2b(void* out, size_t outlen, const void* in, size_t inlen, const void* key, size_t keylen) {
	if (g_next >= g_blocks.size()) { fprintf(stderr, "script exhausted\n"); _exit(3); }
	memcpy(out, g_blocks[g_next++].data(), 64);
	return 0;
}
int main(int argc, char** argv) {
	uint64_t seed = strtoull(arg(argc, argv, "--seed", "1"), nullptr, 10);
	bool thorough = !strcmp(arg(argc, argv, "--tier", "quick"), "thorough");
	int nstreams = atoi(arg(argc, argv, "--streams", thorough ? "640" : "48"));
	FILE* out = fopen(arg(argc, argv, "--out", "/dev/stdout"), "w");
	Rng rng(seed);
	static const uint8_t special[] = { 0, 0, 0, 1, 2, 4, 8, 16, 32, 64, 128, 255, 254, 3, 5, 127 };
	for (int s = 0; s < nstreams; ++s) {
		int style = s % 6; unsigned skew = style == 0 ? 0 : (style == 1 ? 30 : (style == 2 ? 60 : (style == 3 ? 85 : (style == 4 ? 95 : 100))));
		g_blocks.clear(); g_next = 0;
		for (int b = 0; b < 6000; ++b) { std::vector<uint8_t> blk(64); for (auto& x : blk) x = rng.below(100) < skew ? special[rng.below(16)] : (uint8_t)rng.next(); g_blocks.push_back(blk); }
		uint8_t dummy[4] = { 0 };
		Blake2Generator gen(dummy, 0);          // first request refills from the script
		int nprogs = 1 + (s % 2);
		std::string progs = "[";
		SuperscalarProgram* p = new SuperscalarProgram();
		for (int i = 0; i < nprogs; ++i) {
			generateSuperscalar(*p, gen);
			if (i) progs += ",";
			progs += "{\"size\":" + std::to_string(p->getSize()) + ",\"addr\":" + std::to_string(p->getAddressRegister()) + ",\"ins\":[";
			for (unsigned j = 0; j < p->getSize(); ++j) { Instruction& in = (*p)(j); uint32_t imm = in.getImm32(); char b[96]; snprintf(b, sizeof b, "%s[%u,%u,%u,%u,%u,%u]", j ? "," : "", in.opcode, in.dst, in.src, in.mod, imm & 0xffff, imm >> 16); progs += b; }
			progs += "]}";
		}
		delete p;
		std::string blocks = "[";
		for (size_t b = 0; b < g_next; ++b) { if (b) blocks += ","; blocks += json_limbs(g_blocks[b].data(), 64); }
		blocks += "]";
		Line l; l.str("e", "ssx").num("skew", skew).num("used", (long long)g_next).raw("blocks", blocks).raw("progs", progs + "]"); l.emit(out);
	}
	fclose(out);
	return 0;
}
