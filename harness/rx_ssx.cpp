// rx_ssx: drives the real SuperscalarHash generator along SCRIPTED random-byte streams. Built against the
// shared-object form of the library; this executable defines randomx_blake2b, so the generator's
// refill (S = Hash512(S)) is served from a prepared list of 64-byte blocks instead. Byte streams are
// drawn from skewed distributions so that rare paths are frequent (IMUL_RCP re-draws on zero / powers
// of two, IROR_C zero counts, register starvation, look-ahead, throw-away).  No oracle here.
// usage: rx_ssx --seed S --tier T --out FILE
#include "vh.hpp"
#include "superscalar.hpp"
#include "blake2_generator.hpp"
#include "randomx.h"
#include "dataset.hpp"
#include <vector>
#include <string>

using namespace vh;
using namespace randomx;
#include "ssx_stream.hpp"
#include <csignal>
#include <sys/mman.h>
#include <unistd.h>
// pattern cache memory (line k, word j = ((8k+j+1)*K) ^ seed), materialised on first touch: as in rx_ss
static const uint64_t PATK = 0x9E3779B97F4A7C15ull;
static uint64_t g_pat; static uint8_t* g_mem; static std::vector<uint8_t*> g_pages; static FILE* g_out;
static void on_segv(int, siginfo_t* si, void*) {
	uint8_t* a = (uint8_t*)si->si_addr;
	if (g_mem && a >= g_mem && a < g_mem + CacheSize) {
		uint8_t* pg = (uint8_t*)((uintptr_t)a & ~(uintptr_t)4095);
		mprotect(pg, 4096, PROT_READ | PROT_WRITE);
		uint64_t* q = (uint64_t*)pg; uint64_t base = (uint64_t)(pg - g_mem) / 8;
		for (int k = 0; k < 512; ++k) q[k] = ((base + k + 1) * PATK) ^ g_pat;
		g_pages.push_back(pg);
		return;
	}
	const char* m = "{\"e\":\"Crash\",\"during\":\"rx_ssx\"}\n"; if (g_out) { fflush(g_out); (void)!write(fileno(g_out), m, strlen(m)); } _exit(0);
}
static void cache_reset(uint64_t pat) { for (auto p : g_pages) { madvise(p, 4096, MADV_DONTNEED); mprotect(p, 4096, PROT_NONE); } g_pages.clear(); g_pat = pat; }
int main(int argc, char** argv) {
	uint64_t seed = strtoull(arg(argc, argv, "--seed", "1"), nullptr, 10);
	bool thorough = !strcmp(arg(argc, argv, "--tier", "quick"), "thorough");
	int nstreams = atoi(arg(argc, argv, "--streams", thorough ? "640" : "48"));
	int first = atoi(arg(argc, argv, "--first", "0"));
	const char* pick = arg(argc, argv, "--pick", "");      // "seed:index,seed:index,..." replayed before the seeded ones
	FILE* out = fopen(arg(argc, argv, "--out", "/dev/stdout"), "w");
	std::vector<std::pair<uint64_t, int>> ids;
	for (const char* c = pick; *c;) { char* e; uint64_t sd = strtoull(c, &e, 10); if (*e != ':') break; int ix = (int)strtol(e + 1, &e, 10); ids.push_back({ sd, ix }); c = *e == ',' ? e + 1 : e; }
	for (int s = first; s < first + nstreams; ++s) ids.push_back({ seed, s });
	for (auto& id : ids) {
		unsigned style; int s = id.second;
		make_stream(id.first, s, style);
		uint8_t dummy[4] = { 0 };
		Blake2Generator gen(dummy, 0);          // first request refills from the script
		int nprogs = 1 + (s % 2);
		std::string progs = "[";
		SuperscalarProgram* p = new SuperscalarProgram();
		for (int i = 0; i < nprogs; ++i) {
			generateSuperscalar(*p, gen);
			if (i) progs += ",";
			progs += "{\"size\":" + std::to_string(p->getSize()) + ",\"addr\":" + std::to_string(p->getAddressRegister()) + ",\"ins\":[";
			for (unsigned j = 0; j < p->getSize(); ++j) { Instruction& in = (*p)(j); uint32_t imm = in.getImm32(); char b[96]; snprintf(b, sizeof b, "%s[%u,%u,%u,%u,%u,%u]", j ? "," : "", in.opcode, in.dst, in.src, in.mod, imm & 0xffff, imm >> 16); progs += b; }
			progs += "]}";
		}
		delete p;
		std::string blocks = "[";
		for (size_t b = 0; b < g_next; ++b) { if (b) blocks += ","; blocks += json_limbs(g_blocks[b].data(), 64); }
		blocks += "]";
		Line l; l.str("e", "ssx").num("sseed", (long long)id.first).num("idx", s).num("skew", style).num("used", (long long)g_next).raw("blocks", blocks).raw("progs", progs + "]"); l.emit(out);
	}
	// ---- randomx_init_cache itself along scripted streams (eight programs, the reciprocal table, immediates replaced by table indices):
	//      streams with far more IMUL_RCP instructions than any key produces in practice
	{
		const char* initl = arg(argc, argv, "--init", "");
		std::vector<std::pair<uint64_t, int>> iids;
		for (const char* c = initl; *c;) { char* e; uint64_t sd = strtoull(c, &e, 10); if (*e != ':') break; int ix = (int)strtol(e + 1, &e, 10); iids.push_back({ sd, ix }); c = *e == ',' ? e + 1 : e; }
		for (auto& id : iids) {
			unsigned style; make_stream(id.first, id.second, style);
			randomx_cache* cache = randomx_alloc_cache(RANDOMX_FLAG_DEFAULT);
			if (!cache) continue;
			const char key[] = "scripted";
			g_onlyRefill = true;                    // (the generator's constructor does not hash: the first refill already comes from the script)
			randomx_init_cache(cache, key, sizeof key - 1);
			g_onlyRefill = false;
			std::string progs = "[";
			for (int i = 0; i < RANDOMX_CACHE_ACCESSES; ++i) {
				SuperscalarProgram& p = cache->programs[i];
				if (i) progs += ",";
				progs += "{\"size\":" + std::to_string(p.getSize()) + ",\"addr\":" + std::to_string(p.getAddressRegister()) + ",\"ins\":[";
				for (unsigned j = 0; j < p.getSize(); ++j) { Instruction& in = p(j); uint32_t imm = in.getImm32(); char b[96]; snprintf(b, sizeof b, "%s[%u,%u,%u,%u,%u,%u]", j ? "," : "", in.opcode, in.dst, in.src, in.mod, imm & 0xffff, imm >> 16); progs += b; }
				progs += "]}";
			}
			std::string blocks = "[";
			for (size_t b = 0; b < g_next; ++b) { if (b) blocks += ","; blocks += json_limbs(g_blocks[b].data(), 64); }
			std::string rcps = "[";
			for (size_t k = 0; k < cache->reciprocalCache.size(); ++k) { if (k) rcps += ","; rcps += json_limbs(&cache->reciprocalCache[k], 8); }
			// what the cache built by the library computes: dataset items over the pattern memory (the cache's own 256 MiB are swapped out)
			if (!g_mem) { g_mem = (uint8_t*)mmap(nullptr, CacheSize, PROT_NONE, MAP_PRIVATE | MAP_ANONYMOUS | MAP_NORESERVE, -1, 0);
				struct sigaction sa; memset(&sa, 0, sizeof sa); sa.sa_sigaction = on_segv; sa.sa_flags = SA_SIGINFO | SA_NODEFER; sigaction(SIGSEGV, &sa, nullptr); g_out = out; }
			uint8_t* real = cache->memory; cache->memory = g_mem;
			Rng irng(id.first * 31 + (uint64_t)id.second);
			std::string items = "[";
			for (int it = 0; it < 3; ++it) {
				uint32_t item = it == 0 ? 0u : irng.below(34078716u);
				uint64_t pat = irng.next(); cache_reset(pat);
				alignas(64) uint8_t a[64]; initDatasetItem(cache, a, item);
				if (it) items += ",";
				std::string w8 = "["; for (int q = 0; q < 8; ++q) { if (q) w8 += ","; w8 += json_limbs(a + 8 * q, 8); } w8 += "]";
				items += "{\"item\":" + json_limbs(&item, 4) + ",\"pat\":" + json_limbs(&pat, 8) + ",\"interp\":" + w8 + "}";
			}
			cache->memory = real;
			Line l; l.str("e", "ssinit").num("sseed", (long long)id.first).num("idx", id.second).num("used", (long long)g_next).raw("blocks", blocks + "]").raw("progs", progs + "]").raw("rcps", rcps + "]").raw("items", items + "]"); l.emit(out);
			randomx_release_cache(cache);
		}
	}
	fclose(out);
	return 0;
}
