// rx_ssx: drives the real SuperscalarHash generator along SCRIPTED random-byte streams. Built against the
// shared-object form of the library; this executable defines randomx_blake2b, so the generator's
// refill (S = Hash512(S)) is served from a prepared list of 64-byte blocks instead. Byte streams are
// drawn from skewed distributions so that rare paths are frequent (IMUL_RCP re-draws on zero / powers
// of two, IROR_C zero counts, register starvation, look-ahead, throw-away).  No oracle here.
// usage: rx_ssx --seed S --tier T --out FILE
#include "vh.hpp"
#include "superscalar.hpp"
#include "blake2_generator.hpp"
#include "randomx.h"
#include "dataset.hpp"
#include <vector>
#include <string>

using namespace vh;
using namespace randomx;
#include "ssx_stream.hpp"
int main(int argc, char** argv) {
	uint64_t seed = strtoull(arg(argc, argv, "--seed", "1"), nullptr, 10);
	bool thorough = !strcmp(arg(argc, argv, "--tier", "quick"), "thorough");
	int nstreams = atoi(arg(argc, argv, "--streams", thorough ? "640" : "48"));
	int first = atoi(arg(argc, argv, "--first", "0"));
	const char* pick = arg(argc, argv, "--pick", "");      // "seed:index,seed:index,..." replayed before the seeded ones
	FILE* out = fopen(arg(argc, argv, "--out", "/dev/stdout"), "w");
	std::vector<std::pair<uint64_t, int>> ids;
	for (const char* c = pick; *c;) { char* e; uint64_t sd = strtoull(c, &e, 10); if (*e != ':') break; int ix = (int)strtol(e + 1, &e, 10); ids.push_back({ sd, ix }); c = *e == ',' ? e + 1 : e; }
	for (int s = first; s < first + nstreams; ++s) ids.push_back({ seed, s });
	for (auto& id : ids) {
		unsigned style; int s = id.second;
		make_stream(id.first, s, style);
		uint8_t dummy[4] = { 0 };
		Blake2Generator gen(dummy, 0);          // first request refills from the script
		int nprogs = 1 + (s % 2);
		std::string progs = "[";
		SuperscalarProgram* p = new SuperscalarProgram();
		for (int i = 0; i < nprogs; ++i) {
			generateSuperscalar(*p, gen);
			if (i) progs += ",";
			progs += "{\"size\":" + std::to_string(p->getSize()) + ",\"addr\":" + std::to_string(p->getAddressRegister()) + ",\"ins\":[";
			for (unsigned j = 0; j < p->getSize(); ++j) { Instruction& in = (*p)(j); uint32_t imm = in.getImm32(); char b[96]; snprintf(b, sizeof b, "%s[%u,%u,%u,%u,%u,%u]", j ? "," : "", in.opcode, in.dst, in.src, in.mod, imm & 0xffff, imm >> 16); progs += b; }
			progs += "]}";
		}
		delete p;
		std::string blocks = "[";
		for (size_t b = 0; b < g_next; ++b) { if (b) blocks += ","; blocks += json_limbs(g_blocks[b].data(), 64); }
		blocks += "]";
		Line l; l.str("e", "ssx").num("sseed", (long long)id.first).num("idx", s).num("skew", style).num("used", (long long)g_next).raw("blocks", blocks).raw("progs", progs + "]"); l.emit(out);
	}
	// ---- randomx_init_cache itself along scripted streams (eight programs, the reciprocal table, immediates replaced by table indices):
	//      streams with far more IMUL_RCP instructions than any key produces in practice
	{
		const char* initl = arg(argc, argv, "--init", "");
		std::vector<std::pair<uint64_t, int>> iids;
		for (const char* c = initl; *c;) { char* e; uint64_t sd = strtoull(c, &e, 10); if (*e != ':') break; int ix = (int)strtol(e + 1, &e, 10); iids.push_back({ sd, ix }); c = *e == ',' ? e + 1 : e; }
		for (auto& id : iids) {
			unsigned style; make_stream(id.first, id.second, style);
			randomx_cache* cache = randomx_alloc_cache(RANDOMX_FLAG_DEFAULT);
			if (!cache) continue;
			const char key[] = "scripted";
			g_onlyRefill = true;                    // (the generator's constructor does not hash: the first refill already comes from the script)
			randomx_init_cache(cache, key, sizeof key - 1);
			g_onlyRefill = false;
			std::string progs = "[";
			for (int i = 0; i < RANDOMX_CACHE_ACCESSES; ++i) {
				SuperscalarProgram& p = cache->programs[i];
				if (i) progs += ",";
				progs += "{\"size\":" + std::to_string(p.getSize()) + ",\"addr\":" + std::to_string(p.getAddressRegister()) + ",\"ins\":[";
				for (unsigned j = 0; j < p.getSize(); ++j) { Instruction& in = p(j); uint32_t imm = in.getImm32(); char b[96]; snprintf(b, sizeof b, "%s[%u,%u,%u,%u,%u,%u]", j ? "," : "", in.opcode, in.dst, in.src, in.mod, imm & 0xffff, imm >> 16); progs += b; }
				progs += "]}";
			}
			std::string blocks = "[";
			for (size_t b = 0; b < g_next; ++b) { if (b) blocks += ","; blocks += json_limbs(g_blocks[b].data(), 64); }
			std::string rcps = "[";
			for (size_t k = 0; k < cache->reciprocalCache.size(); ++k) { if (k) rcps += ","; rcps += json_limbs(&cache->reciprocalCache[k], 8); }
			Line l; l.str("e", "ssinit").num("sseed", (long long)id.first).num("idx", id.second).num("used", (long long)g_next).raw("blocks", blocks + "]").raw("progs", progs + "]").raw("rcps", rcps + "]"); l.emit(out);
			randomx_release_cache(cache);
		}
	}
	fclose(out);
	return 0;
}
