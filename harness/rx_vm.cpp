// rx_vm: runs chosen program buffers through the bytecode interpreter and the x86-64 JIT compiler
// (full-memory VM classes over a pattern dataset and a pattern scratchpad) and records register
// file, rounding mode, the exact set of changed scratchpad words and the executed-instruction count.
// (C04, C06, C07; "portable" build for C17.)  The VM is driven like randomx_vm::run() except that the
// program bytes are given instead of being generated from a seed, and the loop runs
// randomx_verif_iterations times (hook).  Build with -fno-access-control.  No oracle here.
// usage: rx_vm --seed S --tier T --part oracle|diff|adversarial|branch --out FILE
#include "vh.hpp"
#include "randomx.h"
#include "dataset.hpp"
#include "vm_interpreted.hpp"
#include "vm_compiled.hpp"
#include "vm_interpreted_light.hpp"
#include "vm_compiled_light.hpp"
#include "verif_hooks.h"
#include "jit_compiler_x86.hpp"
#include "superscalar.hpp"
#include "blake2_generator.hpp"
#include "reciprocal.h"
#include "intrin_portable.h"
#include <csignal>
#include <csetjmp>
#include <unistd.h>
#include <sys/mman.h>
#include <vector>
#include <string>

using namespace vh;
using namespace randomx;
static FILE* out;

static const uint64_t PATK = 0x9E3779B97F4A7C15ull, PATK2 = 0xD6E8FEB86659FD93ull;
static uint64_t g_patS, g_patD;
static inline uint64_t patS(uint64_t idx) { return ((idx + 1) * PATK) ^ g_patS; }
static inline uint64_t patD(uint64_t idx) { return ((idx + 1) * PATK2) ^ g_patD; }

// ---- pattern dataset: PROT_NONE region, pages filled on first touch --------------------------------
static uint8_t* g_ds; static size_t g_dsbytes; static std::vector<size_t> g_touched;
static uint8_t* g_guard_lo = nullptr; static uint8_t* g_guard_hi = nullptr;
static volatile sig_atomic_t g_oob = 0; static uintptr_t g_oob_addr = 0;
static sigjmp_buf g_jb;
static void on_segv(int, siginfo_t* si, void*) {
	uint8_t* a = (uint8_t*)si->si_addr;
	if (a >= g_ds && a < g_ds + g_dsbytes) {
		uint8_t* pg = (uint8_t*)((uintptr_t)a & ~(uintptr_t)4095);
		mprotect(pg, 4096, PROT_READ | PROT_WRITE);
		for (size_t k = 0; k < 512; ++k) { uint8_t* qa = pg + 8 * k; if (qa >= g_ds) { uint64_t v = patD((uint64_t)(qa - g_ds) / 8); memcpy(qa, &v, 8); } }
		g_touched.push_back((size_t)(pg - (g_ds - 4096)));
		return;
	}
	g_oob = 1; g_oob_addr = (uintptr_t)a;
	siglongjmp(g_jb, 1);
}
static void ds_reset() { for (size_t p : g_touched) { uint8_t* pg = (g_ds - 4096) + p; madvise(pg, 4096, MADV_DONTNEED); mprotect(pg, 4096, PROT_NONE); } g_touched.clear(); }

struct Result { uint8_t reg[256]; uint32_t fprc; std::string writes; long long nwrites; uint64_t whash; unsigned long long count; bool oob; unsigned long long oobAddr; };

static randomx_dataset g_fake;
static const size_t SP_GUARD = 4096;


struct Prog { uint8_t buf[128 + 8 * 384]; int nwords; };

template<class VM, bool JIT>
static Result run_one(VM* vm, const Prog& P, bool v2, unsigned n, uint32_t fprc0, uint8_t* sp) {
	Result R; memset(&R, 0, sizeof R.reg); R.oob = false; R.oobAddr = 0; R.count = 0;
	uint64_t* q = (uint64_t*)sp; for (uint64_t i = 0; i < ScratchpadSize / 8; ++i) q[i] = patS(i);
	uint8_t* saved = vm->scratchpad; vm->scratchpad = sp;
	if (v2) vm->setFlagV2(); else vm->clearFlagV2();
	memcpy(&vm->program, P.buf, sizeof P.buf);
	memset(&vm->reg, 0, sizeof vm->reg);
	randomx_verif_iterations = n;
	unsigned long long c0 = randomx_verif_executed;
	rx_reset_float_state(); rx_set_rounding_mode(fprc0);
	if (sigsetjmp(g_jb, 1) == 0) {
		vm->initialize();
		vm->verif_execute();
	}
	else { R.oob = true; R.oobAddr = g_oob_addr; }
	R.fprc = rx_get_rounding_mode();
	rx_reset_float_state();
	R.count = randomx_verif_executed - c0;
	memcpy(R.reg, &vm->reg, 256);
	vm->scratchpad = saved;
	randomx_verif_iterations = RANDOMX_PROGRAM_ITERATIONS;
	std::string w = "["; long long nw = 0; uint64_t wh = 1469598103934665603ull;
	for (uint64_t i = 0; i < ScratchpadSize / 8; ++i) if (q[i] != patS(i)) { wh = (wh ^ i) * 1099511628211ull; wh = (wh ^ q[i]) * 1099511628211ull; wh ^= wh >> 29; if (nw < 1600) { char b[48]; snprintf(b, sizeof b, "%s[%llu,", nw ? "," : "", (unsigned long long)(i * 8)); w += b; w += json_limbs(&q[i], 8) + "]"; } ++nw; }
	R.writes = w + "]"; R.nwrites = nw; R.whash = wh;
	return R;
}

// wrappers that expose "initialize(); [generate code]; execute()" of the two engines
template<bool soft> struct IVm : InterpretedVm<AlignedAllocator<CacheLineSize>, soft> {
	using B = InterpretedVm<AlignedAllocator<CacheLineSize>, soft>;
	explicit IVm(randomx_flags f) : B(f) {}
	void verif_execute() { B::execute(); }
};
template<bool soft> struct CVm : CompiledVm<AlignedAllocator<CacheLineSize>, soft, false> {
	using B = CompiledVm<AlignedAllocator<CacheLineSize>, soft, false>;
	explicit CVm(randomx_flags f) : B(f) {}
	void verif_execute() { this->compiler.generateProgram(this->program, this->config); this->mem.memory = this->datasetPtr->memory + this->datasetOffset; B::execute(); }
};

// light-mode engines: dataset items are computed from a real cache (interpreted SuperscalarHash / compiled SuperscalarHash)
struct ILVm : InterpretedLightVm<AlignedAllocator<CacheLineSize>, true> {
	using B = InterpretedLightVm<AlignedAllocator<CacheLineSize>, true>;
	explicit ILVm(randomx_flags f) : B(f) {}
	void verif_execute() { B::execute(); }
};
#ifndef RANDOMX_VERIF_NOJIT
template<bool soft> struct CLVm : CompiledLightVm<AlignedAllocator<CacheLineSize>, soft, false> {
	using B = CompiledLightVm<AlignedAllocator<CacheLineSize>, soft, false>;
	explicit CLVm(randomx_flags f) : B(f) {}
	void verif_execute() { this->compiler.generateProgramLight(this->program, this->config, this->datasetOffset); B::execute(); }
};
#endif

static void nop_fill(Prog& P, Rng& rng) { for (int i = 0; i < 384; ++i) { uint8_t* w = P.buf + 128 + 8 * i; w[0] = (uint8_t)(76 + rng.below(8)); w[1] = (uint8_t)rng.next(); w[2] = (uint8_t)rng.next(); w[3] = (uint8_t)rng.next(); uint32_t z = rng.below(2) ? 0u : (1u << rng.below(32)); memcpy(w + 4, &z, 4); } }

static std::string g_targets;

// branch targets as the x86 JIT encoded them: for every CBRANCH (positions taken from the interpreter's own decode) the
// jz rel32 that ends its code is resolved back to an instruction index through the compiler's instruction offsets.
// Unrecognised encodings give an empty list (nothing is claimed about them).
static std::string g_jtargets = "[]";
#if !defined(RANDOMX_VERIF_NOJIT) && defined(VERIF_JIT_TARGETS)
template<class C, class BC> static std::string jit_targets(C& comp, BC& bytecode, int size) {
	auto offs = std::begin(comp.instructionOffsets);
	std::string t = "[";
	for (int i = 0; i < size; ++i) {
		int v = -2;
		if (bytecode[i].type == InstructionType::CBRANCH) {
			const uint8_t* code = comp.code;
			int32_t end = i + 1 < size ? offs[i + 1] : offs[i] + 20;
			if (end < 6 || code[end - 6] != 0x0f || code[end - 5] != 0x84) return "[]";
			int32_t rel; memcpy(&rel, code + end - 4, 4);
			int32_t dest = end + rel; v = -99;
			for (int j = 0; j <= i; ++j) if (offs[j] == dest) { v = j - 1; break; }
		}
		if (i) t += ","; t += std::to_string(v);
	}
	return t + "]";
}
#endif
static void emit_run(const char* engine, bool soft, bool v2, unsigned n, uint32_t fprc0, const Prog& P, const Result& R, bool withProgram, const char* tag) {
	Line l;
	l.str("e", "run").str("tag", tag).str("engine", engine).boolean("soft", soft).boolean("v2", v2).num("n", n).num("fprc0", fprc0).w64("patS", g_patS).w64("patD", g_patD);
	if (withProgram) {
		l.words("q", (const uint64_t*)P.buf, 16);
		int size = v2 ? 384 : 256;
		std::string ws = "[";
		for (int i = 0; i < size; ++i) { if (i) ws += ","; ws += json_bytes(P.buf + 128 + 8 * i, 8); }
		l.raw("words", ws + "]").raw("targets", g_targets).raw("jtargets", g_jtargets);
	}
	l.boolean("first", (!strcmp(engine, "interp") || !strcmp(engine, "interp-light")) && soft);
	l.limbs("reg", R.reg, 256).num("fprc", R.fprc).raw("writes", R.writes).num("nwrites", R.nwrites).w64("whash", R.whash).num("count", (long long)R.count).boolean("oob", R.oob);
	l.emit(out);
}

// ------------------------------------------------------------------------------------------------
// program generators
// ------------------------------------------------------------------------------------------------
static void put(Prog& P, int i, uint8_t op, uint8_t dst, uint8_t src, uint8_t mod, uint32_t imm) { uint8_t* w = P.buf + 128 + 8 * i; w[0] = op; w[1] = dst; w[2] = src; w[3] = mod; memcpy(w + 4, &imm, 4); }
static uint32_t imm_value(Rng& rng) {
	switch (rng.below(6)) {
	case 0: { static const uint32_t c[] = { 0, 1, 2, 0x7fffffffu, 0x80000000u, 0xffffffffu, 64, 13, 0x00000400u }; return c[rng.below(9)]; }
	case 1: return 1u << rng.below(32);
	case 2: return (1u << rng.below(32)) - 1;
	default: return (uint32_t)rng.next();
	}
}
static void random_program(Rng& rng, Prog& P, int nreal, int style) {
	rng.fill(P.buf, 128);
	nop_fill(P, rng);
	for (int i = 0; i < nreal; ++i) {
		uint8_t op = (uint8_t)rng.next();
		if (style == 1 && rng.below(3) == 0) op = (uint8_t)(214 + rng.below(25));             // branch heavy
		if (style == 2 && rng.below(4) == 0) op = 239;                                          // CFROUND heavy
		if (style == 3 && rng.below(3) == 0) op = (uint8_t)(240 + rng.below(16));               // store heavy
		uint8_t dst = (uint8_t)rng.next(), src = (uint8_t)rng.next();
		if (rng.below(6) == 0) src = (uint8_t)((dst & 7) | (src & 0xf8));
		put(P, i, op, dst, src, (uint8_t)rng.next(), imm_value(rng));
	}
}

int main(int argc, char** argv) {
	uint64_t seed = strtoull(arg(argc, argv, "--seed", "1"), nullptr, 10);
	bool thorough = !strcmp(arg(argc, argv, "--tier", "quick"), "thorough");
	std::string part = arg(argc, argv, "--part", "oracle");
	out = fopen(arg(argc, argv, "--out", "/dev/stdout"), "w");
	Rng rng(seed);
	// the dataset extent ENDS at a page end followed by an inaccessible page, so that a read one item too far faults
	{
		size_t lead = (4096 - ((size_t)DatasetSize % 4096)) % 4096;
		uint8_t* reg = (uint8_t*)mmap(nullptr, lead + (size_t)DatasetSize + 4096, PROT_NONE, MAP_PRIVATE | MAP_ANONYMOUS | MAP_NORESERVE, -1, 0);
		g_ds = reg + lead; g_dsbytes = (size_t)DatasetSize;
	}
	g_fake.memory = g_ds; g_fake.dealloc = nullptr;
	struct sigaction sa; memset(&sa, 0, sizeof sa); sa.sa_sigaction = on_segv; sa.sa_flags = SA_SIGINFO | SA_NODEFER; sigaction(SIGSEGV, &sa, nullptr);
	uint8_t* region = (uint8_t*)mmap(nullptr, ScratchpadSize + 2 * SP_GUARD, PROT_NONE, MAP_PRIVATE | MAP_ANONYMOUS, -1, 0);
	mprotect(region + SP_GUARD, ScratchpadSize, PROT_READ | PROT_WRITE);
	uint8_t* sp = region + SP_GUARD;

	randomx_flags base = RANDOMX_FLAG_FULL_MEM;
	bool haveHard = true;
#if !defined(__AES__)
	haveHard = false;
#endif
	auto* is = new IVm<true>(base); IVm<false>* ih = haveHard ? new IVm<false>((randomx_flags)(base | RANDOMX_FLAG_HARD_AES)) : nullptr;
	is->setDataset(&g_fake); is->allocate(); if (ih) { ih->setDataset(&g_fake); ih->allocate(); }
#ifdef RANDOMX_VERIF_NOJIT
	CVm<true>* cs = nullptr; CVm<false>* ch = nullptr;
#else
	auto* cs = new CVm<true>((randomx_flags)(base | RANDOMX_FLAG_JIT)); CVm<false>* ch = haveHard ? new CVm<false>((randomx_flags)(base | RANDOMX_FLAG_JIT | RANDOMX_FLAG_HARD_AES)) : nullptr;
	cs->setDataset(&g_fake); cs->allocate(); if (ch) { ch->setDataset(&g_fake); ch->allocate(); }
#endif

	// watchdog: a run that does not terminate becomes a Timeout event (no action of the specification accepts it)
	{ struct sigaction sb; memset(&sb, 0, sizeof sb); sb.sa_handler = [](int) { const char* m = "{\"e\":\"Timeout\",\"during\":\"run\"}\n"; fflush(out); (void)!write(fileno(out), m, strlen(m)); _exit(0); }; sigaction(SIGALRM, &sb, nullptr); }
	auto all_engines = [&](const Prog& P, bool v2, unsigned n, uint32_t fprc0, bool withProgram, const char* tag) {
		alarm(120);
		g_patS = rng.next(); g_patD = rng.next();
		ds_reset(); Result a = run_one<IVm<true>, false>(is, P, v2, n, fprc0, sp);
		// the interpreter's compiled bytecode: branch target of every CBRANCH (-2 for other instructions)
		{ g_targets = "["; int size = v2 ? 384 : 256; for (int i = 0; i < size; ++i) { if (i) g_targets += ","; g_targets += std::to_string(is->bytecode[i].type == InstructionType::CBRANCH ? (int)is->bytecode[i].target : -2); } g_targets += "]"; }
		Result c; if (cs) { ds_reset(); c = run_one<CVm<true>, true>(cs, P, v2, n, fprc0, sp); }
		g_jtargets = "[]";
#if !defined(RANDOMX_VERIF_NOJIT) && defined(VERIF_JIT_TARGETS)
		if (cs && withProgram) g_jtargets = jit_targets(cs->compiler, is->bytecode, v2 ? 384 : 256);
#endif
		emit_run("interp", true, v2, n, fprc0, P, a, withProgram, tag);
		if (haveHard) { ds_reset(); Result b = run_one<IVm<false>, false>(ih, P, v2, n, fprc0, sp); emit_run("interp", false, v2, n, fprc0, P, b, false, tag); }
		if (cs) emit_run("jit", true, v2, n, fprc0, P, c, false, tag);
		if (ch && haveHard) { ds_reset(); Result d = run_one<CVm<false>, true>(ch, P, v2, n, fprc0, sp); emit_run("jit", false, v2, n, fprc0, P, d, false, tag); }
	};

	Prog P;
	if (part == "oracle") { // short programs, few iterations: the specification executes them completely
		int np = thorough ? 400 : 60;
		for (int i = 0; i < np; ++i) {
			int style = i % 4; int nreal = (i % 5 == 0) ? (i % 2 ? 384 : 256) : 8 + (int)rng.below(40);
			random_program(rng, P, nreal, style);
			bool v2 = (i & 1) != 0;
			all_engines(P, v2, 1 + rng.below(3), rng.below(4), true, "oracle");
		}
	}
	else if (part == "diff") { // full-length runs (2048 iterations): engines must agree with each other
		int np = thorough ? 300 : 30;
		for (int i = 0; i < np; ++i) {
			random_program(rng, P, 384, i % 4);
			all_engines(P, (i & 1) != 0, RANDOMX_PROGRAM_ITERATIONS, rng.below(4), false, "diff");
		}
	}
	else if (part == "adversarial") { // maximal-length encodings in every slot, extreme immediates / registers, maximal dataset offset
		static const uint8_t worst[] = { 204, 239, 214, 255, 76, 140, 16, 70, 0, 120, 166, 208 };
		int reps = thorough ? 6 : 2;
		for (uint8_t op : worst) for (int rep = 0; rep < reps; ++rep) for (int v2 = 0; v2 < 2; ++v2) {
			rng.fill(P.buf, 128);
			for (int i = 0; i < 384; ++i) put(P, i, op, (uint8_t)(rep ? rng.next() : 4), (uint8_t)(rep ? rng.next() : 4), (uint8_t)(rep ? rng.next() : 0xff), rep ? imm_value(rng) : 0x80000000u);
			if (rep % 2 == 0) { uint64_t m = ~0ull; memcpy(P.buf + 8 * 8, &m, 8); memcpy(P.buf + 8 * 10, &m, 8); uint64_t off = 524287; memcpy(P.buf + 8 * 13, &off, 8); } // ma, mx all ones; maximal dataset offset
			all_engines(P, v2 != 0, 2, rng.below(4), true, "oracle");
			all_engines(P, v2 != 0, RANDOMX_PROGRAM_ITERATIONS, rng.below(4), false, "diff");
		}
		for (int i = 0; i < (thorough ? 60 : 10); ++i) { // random programs with extreme configuration block
			random_program(rng, P, 384, i % 4);
			uint64_t m = ~0ull - rng.below(64); memcpy(P.buf + 8 * 8, &m, 8); uint64_t off = 524287 - (i % 2); memcpy(P.buf + 8 * 13, &off, 8);
			all_engines(P, (i & 1) != 0, 3, rng.below(4), true, "oracle");
		}
	}
	else if (part == "branch") { // CBRANCH with engineered 0 / 1 / 2 consecutive takes, and concretised abstract programs (W, S, N, B over r0-r2)
		int np = atoi(arg(argc, argv, "--np", thorough ? "2197" : "500"));
		for (int pi = 0; pi < np; ++pi) {
			// the last CFROUND word of the previous program (the engines are reused from program to program: whatever a code generator remembers about
			// the program it compiled before must not leak into this one)
			uint8_t carry[8]; bool haveCarry = false;
			if (pi > 0) for (int q = 383; q >= 0 && !haveCarry; --q) if (P.buf[128 + 8 * q] == 239) { memcpy(carry, P.buf + 128 + 8 * q, 8); haveCarry = true; }
			rng.fill(P.buf, 128); nop_fill(P, rng);
			int n = 0;
			if (haveCarry && rng.below(2)) { memcpy(P.buf + 128, carry, 8); n = 1; if (rng.below(2)) { static const uint8_t fpo[] = { 124, 145, 172, 208, 140, 204 }; put(P, n++, fpo[rng.below(6)], (uint8_t)rng.next(), (uint8_t)rng.next(), (uint8_t)rng.next(), imm_value(rng)); } }
			int len = 3 + (int)rng.below(thorough ? 4 : 3);
			for (int a = 0; a < len && n < 40; ++a) {
				int kind = (int)rng.below(18); uint8_t d = (uint8_t)rng.below(3), s2 = (uint8_t)((d + 1 + rng.below(2)) % 3);
				// between the elements: IMUL_RCP with a zero / power-of-two divisor on r0-r2 (a no-op that is NOT a register write, 5.2.8)
				if (rng.below(2) && n < 40) put(P, n++, 76, (uint8_t)(rng.below(3) | (rng.next() & 0xf8)), (uint8_t)rng.next(), (uint8_t)rng.next(), rng.below(3) ? (1u << rng.below(32)) : 0u);
				if (kind == 13 || kind == 14) { // V(d): an instruction that leaves the value of d unchanged but IS a write of d for the last-writer table
					static const uint8_t vop[] = { 106, 106, 114, 86, 23, 46 };   // IROR_R, IROR_R, IROL_R, IXOR_R, ISUB_R, IMUL_R with src = dst (immediate operand)
					int w = (int)rng.below(6); uint32_t im = w < 3 ? 64u * rng.below(4) : (w == 5 ? 1u : 0u);
					put(P, n++, vop[w], d, d, (uint8_t)rng.next(), im);
					if (rng.below(2)) { uint8_t cond = (uint8_t)rng.below(16); put(P, n++, (uint8_t)(214 + rng.below(25)), d, 0, (uint8_t)(cond << 4), (uint32_t)rng.next()); }
					continue;
				}
				if (kind >= 15) { // L(d): a loop whose body is really re-executed: set d; body that does not write d and has no branch; CBRANCH d taken once or twice
					uint8_t cond = (uint8_t)rng.below(16); int b = cond + 8; int want = 1 + (int)rng.below(2);
					// twin variant: the last writer of d is an immediate-operand writer W, and the instruction the branch jumps to is the SAME word on another
					// register (a code generator that carries state from one instruction to the next - a constant left in a temporary, a folded
					// pair - must not rely on it at a jump target); the body uses the temporaries of the high multiplications / memory operands
					bool twin = rng.below(3) == 0; uint8_t wop = 0; uint32_t wim = 0;
					if (twin) { static const uint8_t tw[] = { 23, 46, 86, 106, 114, 84, 76, 76, 76 }; wop = tw[rng.below(9)]; wim = imm_value(rng);
						if (wop == 76 && (wim == 0 || (wim & (wim - 1)) == 0)) wim = 3 + 2 * (uint32_t)rng.below(100000); }
					auto apply_w = [&](uint64_t v) -> uint64_t { uint64_t sx = (uint64_t)(int64_t)(int32_t)wim;
						switch (wop) { case 23: return v - sx; case 46: return v * sx; case 86: return v ^ sx; case 106: return (v >> (wim & 63)) | (v << ((64 - (wim & 63)) & 63));
							case 114: return (v << (wim & 63)) | (v >> ((64 - (wim & 63)) & 63)); case 84: return 0 - v;
							case 76: { int bl = 64 - __builtin_clzll((uint64_t)wim); return v * (uint64_t)((((unsigned __int128)1) << (63 + bl)) / wim); } }
						return v; };
					uint32_t im = 0, d0 = 0; bool found = false;
					for (int tr = 0; tr < 4000000 && !found; ++tr) {
						im = (uint32_t)rng.next(); d0 = (uint32_t)rng.next();
						uint64_t cimm = ((uint64_t)(int64_t)(int32_t)im | (1ull << b)) & ~(1ull << (b - 1));
						uint64_t v = (uint64_t)(int64_t)(int32_t)d0; int takes = 0;
						if (twin) v = apply_w(v);
						for (int k = 0; k < 3; ++k) { v += cimm; if ((v & (255ull << b)) == 0) ++takes; else break; }
						found = takes == want;
					}
					put(P, n++, 46, d, d, 0, 0); put(P, n++, 23, d, d, 0, (uint32_t)(0 - d0));
					int body = 1 + (int)rng.below(4);
					if (twin) { uint8_t e = (uint8_t)((d + 1 + rng.below(7)) % 8), e2 = (uint8_t)((d + 1 + rng.below(7)) % 8);
						put(P, n++, wop, d, d, 0, wim); put(P, n++, wop, e, e, 0, wim);
						static const uint8_t clob[] = { 66, 70, 71, 75, 62, 16, 101, 39 };
						put(P, n++, clob[rng.below(8)], e2, (uint8_t)rng.next(), (uint8_t)rng.next(), imm_value(rng)); }
					bool rmotif = !twin && rng.below(3) == 0;
					// span variant: the same CFROUND word stands before the setter of d and again at the jump target; its source register is written inside
					// the body, so the re-executed copy selects another mode (a code generator that drops the second copy as redundant is wrong at a jump target)
					bool span = !twin && !rmotif && rng.below(3) == 0;
					if (span) { uint8_t sr = (uint8_t)((d + 1 + rng.below(7)) % 8); uint32_t rot = (uint32_t)rng.below(64); uint8_t dj = (uint8_t)rng.next();
						static const uint8_t fpo[] = { 124, 145, 172, 208, 140, 204 };
						// the two setter words were just emitted at n-2, n-1: move them behind the first copy
						uint8_t tmp[16]; memcpy(tmp, P.buf + 128 + 8 * (n - 2), 16); put(P, n - 2, 239, dj, sr, 0, rot); memcpy(P.buf + 128 + 8 * (n - 1), tmp, 16); ++n;
						put(P, n++, 239, dj, sr, 0, rot);
						put(P, n++, fpo[rng.below(6)], (uint8_t)rng.next(), (uint8_t)rng.next(), (uint8_t)rng.next(), imm_value(rng));
						put(P, n++, 86, sr, sr, 0, (uint32_t)rng.next());          // IXOR_R sr, imm
						body = (int)rng.below(2); }      // body = rounding FP instruction(s) then CFROUND, and a CFROUND right after the loop: the re-executed FP instruction must use the mode set INSIDE the loop
					if (rmotif) {
						static const uint8_t fpo[] = { 124, 145, 172, 208, 140, 204 };
						put(P, n++, fpo[rng.below(6)], (uint8_t)rng.next(), (uint8_t)rng.next(), (uint8_t)rng.next(), imm_value(rng));
						if (rng.below(2)) put(P, n++, fpo[rng.below(4)], (uint8_t)rng.next(), (uint8_t)rng.next(), (uint8_t)rng.next(), imm_value(rng));
						put(P, n++, 239, (uint8_t)rng.next(), (uint8_t)((d + 1 + rng.below(7)) % 8), 0, (uint32_t)rng.below(64));
						body = 0;
					}
					for (int q = 0; q < body && n < 44; ++q) {
						static const uint8_t pool[] = { 124, 145, 172, 208, 166, 120, 239, 239, 240, 140, 161, 204, 76, 0, 23, 46, 86, 106, 84, 116 };
						uint8_t op = pool[rng.below(20)]; uint8_t e = (uint8_t)((d + 1 + rng.below(7)) % 8);     // integer writers write some OTHER register
						uint32_t imx = op == 76 ? (rng.below(2) ? 0u : (1u << rng.below(32))) : imm_value(rng);
						uint8_t dd = op == 76 ? d : (op >= 120 && op < 214 ? (uint8_t)rng.next() : e);
						uint8_t ss = op == 116 ? dd : (uint8_t)rng.next();                                            // ISWAP_R e,e: no-op
						if (op == 116 && (ss & 7) != (dd & 7)) ss = dd;
						put(P, n++, op, dd, ss, (uint8_t)rng.next(), imx);
					}
					put(P, n++, (uint8_t)(214 + rng.below(25)), d, (uint8_t)rng.next(), (uint8_t)((cond << 4) | (rng.next() & 15)), im);
					if (rmotif || rng.below(2)) put(P, n++, 239, (uint8_t)rng.next(), (uint8_t)rng.next(), 0, (uint32_t)rng.below(64));   // a CFROUND right after the loop
					continue;
				}
				if (kind < 3) { // W(d): some writer of d
					static const uint8_t wr[] = { 0, 16, 23, 39, 46, 62, 66, 71, 84, 86, 101, 106, 114, 76 };
					uint8_t op = wr[rng.below(14)]; uint32_t im = imm_value(rng); if (op == 76 && (im == 0 || (im & (im - 1)) == 0)) im = 3;
					put(P, n++, op, d, (uint8_t)rng.below(8), (uint8_t)rng.next(), im);
					if (rng.below(3) == 0) { memcpy(P.buf + 128 + 8 * n, P.buf + 128 + 8 * (n - 1), 8); ++n; // the same word again (a decoder that remembers the previous instruction must not skip bookkeeping)
						uint8_t cond = (uint8_t)rng.below(16); put(P, n++, (uint8_t)(214 + rng.below(25)), d, 0, (uint8_t)(cond << 4), (uint32_t)rng.next()); }
				}
				else if (kind < 9) put(P, n++, 116, d, s2, 0, 0);                      // S(d,s): ISWAP_R
				else if (kind == 9) {                                                   // N: something that does not touch the last-writer table
					static const uint8_t nn[] = { 120, 124, 145, 166, 172, 208, 239, 240, 76, 116 };
					uint8_t op = nn[rng.below(10)]; uint32_t im = (op == 76) ? (rng.below(2) ? 0u : (1u << rng.below(32))) : imm_value(rng);
					put(P, n++, op, op == 116 ? d : (uint8_t)rng.next(), op == 116 ? d : (uint8_t)rng.next(), (uint8_t)rng.next(), im);
				}
				else { // B(d): preceded by a setter so that the branch is taken 0, 1 or 2 times
					uint8_t cond = (uint8_t)rng.below(16); int b = cond + 8; int want = (int)rng.below(3);
					uint32_t im = 0; uint32_t d0 = 0; bool found = false;
					for (int tr = 0; tr < 4000000 && !found; ++tr) {
						im = (uint32_t)rng.next(); d0 = (uint32_t)rng.next();
						uint64_t cimm = ((uint64_t)(int64_t)(int32_t)im | (1ull << b)) & ~(1ull << (b - 1));
						uint64_t v = (uint64_t)(int64_t)(int32_t)d0; int takes = 0;
						for (int k = 0; k < 3; ++k) { v += cimm; if ((v & (255ull << b)) == 0) ++takes; else break; }
						found = takes == want;
					}
					if (rng.below(2)) { put(P, n++, 46, d, d, 0, 0); put(P, n++, 23, d, d, 0, (uint32_t)(0 - d0)); }   // IMUL_R d,0 ; ISUB_R d,-d0  => d = signext(d0)... (32-bit immediates sign-extend)
					put(P, n++, (uint8_t)(214 + rng.below(25)), d, (uint8_t)rng.next(), (uint8_t)((cond << 4) | (rng.next() & 15)), im);
				}
			}
			all_engines(P, (pi & 1) != 0, 1 + (pi % 2), rng.below(4), true, "oracle");
		}
	}
	else if (part == "interleave") { // two decoder objects compiling two programs alternately, instruction by instruction (the per-instruction interface is public):
		// each program's branch targets must be those of its own program
		int np = thorough ? 200 : 40;
		for (int pi = 0; pi < np; ++pi) {
			bool v2 = (pi & 1) != 0; int size = v2 ? 384 : 256;
			Prog A, B; random_program(rng, A, 384, 1); random_program(rng, B, 384, pi % 4);
			// branch-heavy programs over few registers
			for (int i = 0; i < size; ++i) { A.buf[128 + 8 * i + 1] &= 0xfb; B.buf[128 + 8 * i + 1] &= 0xf9; }
			BytecodeMachine ma, mb; NativeRegisterFile ra, rb; static InstructionByteCode ca[384], cb[384];
			ma.beginCompilation(ra); mb.beginCompilation(rb);
			for (int i = 0; i < size; ++i) {
				Instruction ia, ib; memcpy(&ia, A.buf + 128 + 8 * i, 8); memcpy(&ib, B.buf + 128 + 8 * i, 8);
				ma.compileInstruction(ia, i, ca[i]); mb.compileInstruction(ib, i, cb[i]);
			}
			for (int which = 0; which < 2; ++which) {
				const Prog& Q = which ? B : A; InstructionByteCode* c = which ? cb : ca;
				std::string ws = "[", tg = "[";
				for (int i = 0; i < size; ++i) { if (i) { ws += ","; tg += ","; } ws += json_bytes(Q.buf + 128 + 8 * i, 8); tg += std::to_string(c[i].type == InstructionType::CBRANCH ? (int)c[i].target : -2); }
				Line l; l.str("e", "decode").boolean("v2", v2).raw("words", ws + "]").raw("targets", tg + "]"); l.emit(out);
			}
		}
	}
	else if (part == "sweep") { // every instruction kind x {src = dst, src != dst} x immediates around every sign / size boundary, packed into programs run for one iteration (oracle)
		static const uint8_t kinds[] = { 0, 16, 23, 39, 46, 62, 66, 70, 71, 75, 76, 84, 86, 101, 106, 114, 116, 120, 124, 140, 145, 161, 166, 172, 204, 208, 214, 239, 240 };
		static const uint32_t imms[] = { 0, 1, 2, 3, 0x3f, 0x40, 0x7e, 0x7f, 0x80, 0x81, 0xfe, 0xff, 0x100, 0x101, 0x7fff, 0x8000, 0xffff, 0x10000, 0x7fffff, 0x800000, 0x7ffffffe, 0x7fffffff,
			0x80000000u, 0x80000001u, 0xffffff7fu, 0xffffff80u, 0xffffff81u, 0xffffffffu, 0xfffffffeu, 0xffff8000u, 0xffff7fffu, 0xffff0000u, 0x00200000u, 0x001fffffu, 0x00003ff8u };
		struct Item { uint8_t op; bool same; uint32_t imm; };
		std::vector<Item> items;
		for (uint8_t k : kinds) for (int same = 0; same < 2; ++same) for (uint32_t im : imms) items.push_back(Item{ k, same != 0, im });
		// shuffle deterministically so that the kinds are mixed within a program
		for (size_t i = items.size(); i > 1; --i) std::swap(items[i - 1], items[rng.below((uint32_t)i)]);
		size_t pos = 0; int pi = 0;
		while (pos < items.size()) {
			bool v2 = (pi & 1) != 0; int size = v2 ? 384 : 256;
			rng.fill(P.buf, 128); nop_fill(P, rng);
			for (int i = 0; i < size && pos < items.size(); ++i, ++pos) {
				const Item& it = items[pos];
				uint8_t dst = (uint8_t)rng.next(), src = (uint8_t)rng.next();
				if (it.same) src = (uint8_t)((dst & 7) | (src & 0xf8)); else if ((src & 7) == (dst & 7)) src = (uint8_t)((src & 0xf8) | ((dst + 1 + rng.below(7)) & 7));
				put(P, i, (uint8_t)(it.op + (it.op == 214 ? rng.below(25) : 0)), dst, src, (uint8_t)rng.next(), it.imm);
			}
			all_engines(P, v2, 1, rng.below(4), true, "oracle");
			++pi;
		}
	}
	else if (part == "light") { // light mode: interpreter vs JIT over a real cache, configuration blocks with directed dataset offsets (in items: 0, 1, 127, 128, 129, 255, 256, ..., maximum)
		randomx_cache* cache = randomx_alloc_cache(RANDOMX_FLAG_JIT);
		std::vector<uint8_t> key = rng.bytes(1 + rng.below(60));
		randomx_init_cache(cache, key.data(), key.size());
		ILVm* il = new ILVm(RANDOMX_FLAG_DEFAULT); il->setCache(cache); il->allocate();
#ifndef RANDOMX_VERIF_NOJIT
		auto* cls = new CLVm<true>(RANDOMX_FLAG_JIT); cls->setCache(cache); cls->allocate();
		CLVm<false>* clh = haveHard ? new CLVm<false>((randomx_flags)(RANDOMX_FLAG_JIT | RANDOMX_FLAG_HARD_AES)) : nullptr; if (clh) { clh->setCache(cache); clh->allocate(); }
#endif
		static const uint32_t offs[] = { 0, 1, 2, 63, 64, 126, 127, 128, 129, 130, 254, 255, 256, 257, 511, 512, 32767, 32768, 65535, 65536, 524286, 524287 };
		int np = thorough ? 88 : 44;
		for (int i = 0; i < np; ++i) {
			random_program(rng, P, 384, i % 4);
			uint64_t off = offs[i % (sizeof offs / sizeof offs[0])] | ((uint64_t)rng.next() << 19);       // only the low 19 bits count
			memcpy(P.buf + 8 * 13, &off, 8);
			bool v2 = (i & 1) != 0; unsigned n = 16 + rng.below(48); uint32_t fprc0 = rng.below(4);
			alarm(120);
			g_patS = rng.next(); g_patD = 0;
			Result a = run_one<ILVm, false>(il, P, v2, n, fprc0, sp);
			g_targets = "[]"; g_jtargets = "[]";
			emit_run("interp-light", true, v2, n, fprc0, P, a, false, "diff");
#ifndef RANDOMX_VERIF_NOJIT
			{ Result c = run_one<CLVm<true>, true>(cls, P, v2, n, fprc0, sp); emit_run("jit-light", true, v2, n, fprc0, P, c, false, "diff"); }
			if (clh) { Result d = run_one<CLVm<false>, true>(clh, P, v2, n, fprc0, sp); emit_run("jit-light", false, v2, n, fprc0, P, d, false, "diff"); }
#endif
		}
	}
#if defined(VERIF_JIT_TARGETS) && !defined(RANDOMX_VERIF_NOJIT)      // (reads JitCompilerX86::instructionOffsets: only when that member exists)
	else if (part == "codelen") { // length of the x86 code of EVERY instruction word class (opcode x dst x src x mod bytes, immediate classes), and the fixed part per flag set
		JitCompilerX86 jit; jit.enableAll();
		const size_t codeSize = jit.getCodeSize();
		// where the SuperscalarHash area starts is observed as in the codegen part
		SuperscalarProgramList programs; std::vector<uint64_t> rcache; { std::vector<uint8_t> key = rng.bytes(32); Blake2Generator gen(key.data(), key.size());
			for (int i = 0; i < RANDOMX_CACHE_ACCESSES; ++i) { generateSuperscalar(programs[i], gen); for (unsigned j = 0; j < programs[i].getSize(); ++j) { auto& in = programs[i](j); if ((SuperscalarInstructionType)in.opcode == SuperscalarInstructionType::IMUL_RCP) { auto rcp = randomx_reciprocal(in.getImm32()); in.setImm32((uint32_t)rcache.size()); rcache.push_back(rcp); } } } }
		std::vector<uint8_t> before(jit.getCode(), jit.getCode() + codeSize);
		jit.generateSuperscalarHash(programs, rcache);
		size_t sshOff = codeSize; for (size_t k = 0; k < codeSize; ++k) if (before[k] != jit.getCode()[k]) { sshOff = k; break; }
		sshOff &= ~(size_t)63;
		for (int v2 = 0; v2 < 2; ++v2) {
			int size = v2 ? 384 : 256;
			cs->setFlagV2(); if (!v2) cs->clearFlagV2();
			jit.setFlags((randomx_flags)(RANDOMX_FLAG_JIT | RANDOMX_FLAG_FULL_MEM | (v2 ? RANDOMX_FLAG_V2 : 0)));
			int maxlen[256], minlen[256]; for (int k = 0; k < 256; ++k) { maxlen[k] = 0; minlen[k] = 1 << 20; }
			long long combos = 0; int slot = 0;
			struct W { uint8_t op, dst, src, mod; }; std::vector<W> inslot((size_t)size);
			auto flush = [&](int used) {
				for (int i = used; i < size; ++i) put(P, i, 255, 0, 0, 0, 0);         // filler after the measured words
				memcpy(&cs->program, P.buf, sizeof P.buf); cs->initialize();
				jit.generateProgram(cs->program, cs->config);
				auto offs = std::begin(jit.instructionOffsets);
				for (int i = 0; i + 1 < size && i < used; ++i) { int len = offs[i + 1] - offs[i]; uint8_t op = inslot[(size_t)i].op; if (len > maxlen[op]) maxlen[op] = len; if (len < minlen[op]) minlen[op] = len; }
			};
			rng.fill(P.buf, 128);
			for (int op = 0; op < 256; ++op) for (int dst = 0; dst < 8; ++dst) for (int src = 0; src < 8; ++src) for (int mod = 0; mod < 256; ++mod) {
				++combos;
				for (int ic = 0; ic < 3; ++ic) {   // immediate classes: zero, a power of two, all ones / random
					uint32_t im = ic == 0 ? 0u : (ic == 1 ? (1u << ((op + dst + mod) & 31)) : (((op ^ mod) & 1) ? 0xffffffffu : (uint32_t)rng.next()));
					inslot[(size_t)slot] = W{ (uint8_t)op, (uint8_t)dst, (uint8_t)src, (uint8_t)mod };
					put(P, slot, (uint8_t)op, (uint8_t)(dst | (rng.next() & 0xf8)), (uint8_t)(src | (rng.next() & 0xf8)), (uint8_t)mod, im);
					if (++slot == size - 1) { flush(slot); slot = 0; }
				}
			}
			if (slot) flush(slot);
			std::string lens = "["; for (int k = 0; k < 256; ++k) { char b[48]; snprintf(b, sizeof b, "%s[%d,%d,%d]", k ? "," : "", k, maxlen[k], minlen[k]); lens += b; } lens += "]";
			{ Line l; l.str("e", "codelen").boolean("v2", v2 != 0).num("combos", combos).raw("lens", lens); l.emit(out); }
			// fixed part of every flag set: end position of a program minus the sum of its instruction lengths
			for (int hard = 0; hard < 2; ++hard) for (int light = 0; light < 2; ++light) {
				random_program(rng, P, 384, 0);
				memcpy(&cs->program, P.buf, sizeof P.buf); cs->initialize();
				jit.setFlags((randomx_flags)(RANDOMX_FLAG_JIT | (v2 ? RANDOMX_FLAG_V2 : 0) | (hard ? RANDOMX_FLAG_HARD_AES : 0) | (light ? 0 : RANDOMX_FLAG_FULL_MEM)));
				if (light) jit.generateProgramLight(cs->program, cs->config, (uint32_t)cs->datasetOffset); else jit.generateProgram(cs->program, cs->config);
				auto offs = std::begin(jit.instructionOffsets);
				// the last instruction's end: generate the same program with one more... not available; measure it from a trailing NOP word instead
				put(P, size - 1, 255, 0, 0, 0, 0);      // ISTORE/NOP range end: opcode 255 has a fixed encoding, measured above
				memcpy(&cs->program, P.buf, sizeof P.buf); cs->initialize();
				if (light) jit.generateProgramLight(cs->program, cs->config, (uint32_t)cs->datasetOffset); else jit.generateProgram(cs->program, cs->config);
				offs = std::begin(jit.instructionOffsets);
				long long sum = (offs[size - 1] - offs[0]) + maxlen[255];
				Line l; l.str("e", "codebase").boolean("v2", v2 != 0).boolean("hard", hard != 0).boolean("light", light != 0).num("size", size)
					.num("codePos", jit.codePos).num("base", (long long)jit.codePos - sum).num("limit", (long long)sshOff); l.emit(out);
			}
		}
	}
#endif
	else if (part == "codegen") { // code buffer layout: generated programs never reach the SuperscalarHash area, which stays intact
		JitCompilerX86 jit; jit.enableAll();
		SuperscalarProgramList programs; std::vector<uint64_t> rcache;
		std::vector<uint8_t> key = rng.bytes(32);
		Blake2Generator gen(key.data(), key.size());
		for (int i = 0; i < RANDOMX_CACHE_ACCESSES; ++i) {
			generateSuperscalar(programs[i], gen);
			for (unsigned j = 0; j < programs[i].getSize(); ++j) { auto& in = programs[i](j); if ((SuperscalarInstructionType)in.opcode == SuperscalarInstructionType::IMUL_RCP) { auto rcp = randomx_reciprocal(in.getImm32()); in.setImm32((uint32_t)rcache.size()); rcache.push_back(rcp); } }
		}
		// where the SuperscalarHash routine lives is observed, not assumed: fill the buffer tail with a marker, generate, diff
		const size_t codeSize = jit.getCodeSize();
		std::vector<uint8_t> before(jit.getCode(), jit.getCode() + codeSize);
		jit.generateSuperscalarHash(programs, rcache);
		long long sshPos = jit.codePos;
		size_t sshOff = codeSize; for (size_t k = 0; k < codeSize; ++k) if (before[k] != jit.getCode()[k]) { sshOff = k; break; }
		sshOff &= ~(size_t)63;
		std::vector<uint8_t> snap(jit.getCode() + sshOff, jit.getCode() + codeSize);
		static const uint8_t worst[] = { 204, 239, 214, 255, 76, 140, 16, 70, 0, 120, 166, 208, 1 };
		for (uint8_t op : worst) for (int v2 = 0; v2 < 2; ++v2) for (int hard = 0; hard < 2; ++hard) for (int light = 0; light < 2; ++light) for (int rep = 0; rep < 2; ++rep) {
			rng.fill(P.buf, 128);
			for (int i = 0; i < 384; ++i) { if (op == 1) put(P, i, (uint8_t)rng.next(), (uint8_t)rng.next(), (uint8_t)rng.next(), (uint8_t)rng.next(), (uint32_t)rng.next()); else put(P, i, op, (uint8_t)(rep ? rng.next() : 4), (uint8_t)(rep ? rng.next() : 4), (uint8_t)(rep ? rng.next() : 0xff), rep ? imm_value(rng) : 0x80000000u); }
			int flags = RANDOMX_FLAG_JIT | (v2 ? RANDOMX_FLAG_V2 : 0) | (hard ? RANDOMX_FLAG_HARD_AES : 0) | (light ? 0 : RANDOMX_FLAG_FULL_MEM);
			cs->setFlagV2(); if (!v2) cs->clearFlagV2();
			memcpy(&cs->program, P.buf, sizeof P.buf); cs->initialize();
			jit.setFlags((randomx_flags)flags);
			if (light) jit.generateProgramLight(cs->program, cs->config, (uint32_t)cs->datasetOffset); else jit.generateProgram(cs->program, cs->config);
			long long changed = 0; for (size_t k = 0; k < snap.size(); ++k) changed += snap[k] != jit.getCode()[sshOff + k];
			Line l; l.str("e", "codegen").num("op", op).boolean("v2", v2 != 0).boolean("hard", hard != 0).boolean("light", light != 0)
				.num("codePos", jit.codePos).num("limit", (long long)sshOff).num("codeSize", (long long)codeSize).num("sshPos", sshPos).num("sshChanged", changed);
			l.emit(out);
		}
	}
	fclose(out);
	_exit(0);
}
