// ss_find: design-time path finder for the SuperscalarHash generator. Compiles the library's own superscalar.cpp
// with its TRACE output switched on, feeds scripted byte streams (same streams as rx_ssx) and reports the streams on
// which the generator takes rarely taken paths (recognised in its trace output).  It decides nothing: the streams
// it names are replayed by rx_ssx and validated against the generator machine of Superscalar.tla, whose own path
// statistics confirm that the path was taken.   usage: ss_find --seed S --first F --streams N
#define TRACE
#include <iostream>
#include <sstream>
#include "superscalar.cpp"   // from the tree under test (-I <repo>/src); the executable is NOT linked with the library
#include "blake2_generator.cpp"
extern "C" {
#include "reciprocal.c"
}
// executeSuperscalar is not used here; satisfy its references
uint64_t rotr(uint64_t a, unsigned b) { return (a >> (b & 63)) | (a << (-b & 63)); }
uint64_t mulh(uint64_t, uint64_t) { return 0; }
int64_t smulh(int64_t, int64_t) { return 0; }
#include "ssx_stream.hpp"
using namespace vh;
int main(int argc, char** argv) {
	uint64_t seed = strtoull(arg(argc, argv, "--seed", "1"), nullptr, 10);
	int first = atoi(arg(argc, argv, "--first", "0")), n = atoi(arg(argc, argv, "--streams", "1000"));
	for (int s = first; s < first + n; ++s) {
		unsigned style; make_stream(seed, s, style);
		uint8_t dummy[4] = { 0 }; randomx::Blake2Generator gen(dummy, 0);
		int nprogs = atoi(arg(argc, argv, "--progs", "0")); if (nprogs <= 0) nprogs = 1 + (s % 2);
		randomx::SuperscalarProgram* p = new randomx::SuperscalarProgram();
		int dstAfterSrc = 0, aborts = 0, srcThrow = 0, maxConsec = 0, unmapped = 0, full = 0, small = 0, elim = 0, maxStall = 0, rcp = 0, late = 0, halfRcp = 0;
		for (int i = 0; i < nprogs; ++i) {
			std::ostringstream os; std::streambuf* old = std::cout.rdbuf(os.rdbuf());
			randomx::generateSuperscalar(*p, gen);
			std::cout.rdbuf(old);
			if (p->getSize() >= 512) full++;
			for (unsigned j = 0; j < p->getSize(); ++j) if ((randomx::SuperscalarInstructionType)(*p)(j).opcode == randomx::SuperscalarInstructionType::IMUL_RCP) rcp++;
			if (p->getSize() < 380) small++;
			std::istringstream is(os.str()); std::string ln; int srcStall = 0, dstStall = 0, consec = 0; int maxCommit = -1; bool lastMov = false;
			while (std::getline(is, ln)) {
				{ size_t q = ln.find("; P"); size_t a = ln.find(" at cycle "); // a committed uop: "<macro-op> ; P5 at cycle N"
				  if (q != std::string::npos && a == q + 4) { int cy = atoi(ln.c_str() + a + 10); if (cy > maxCommit) maxCommit = cy; lastMov = ln.compare(0, 11, "mov rax,i64") == 0; } }
				if (ln.find("; src STALL") != std::string::npos) { srcStall++; }
				else if (ln.find("; dst STALL") != std::string::npos) { dstStall++; }
				else if (ln.find("; THROW away") != std::string::npos) { if (dstStall && srcStall) dstAfterSrc++; if (!dstStall) srcThrow++; consec++; if (consec > maxConsec) maxConsec = consec; srcStall = dstStall = 0; }
				else if (ln.find("Aborting at cycle") != std::string::npos) { aborts++; srcStall = dstStall = 0; }
				else if (ln.find("Unable to map") != std::string::npos) { unmapped++; }
				else if (ln.find("(eliminated)") != std::string::npos) { elim++; }
				else if (ln.find("; dst = r") != std::string::npos) { if (srcStall + dstStall > maxStall) maxStall = srcStall + dstStall; srcStall = dstStall = 0; consec = 0; }
			}
			if (maxCommit > RANDOMX_SUPERSCALAR_LATENCY) late++;      // a macro-op committed beyond cycle 170 (the port map is four cycles longer than the latency bound)
			if (lastMov) halfRcp++;                                   // generation ended between the two macro-ops of an IMUL_RCP
		}
		delete p;
		printf("S %llu:%d style=%u dstAfterSrcStall=%d aborts=%d srcThrow=%d maxConsec=%d unmapped=%d full=%d small=%d maxStall=%d rcp=%d late=%d halfRcp=%d\n", (unsigned long long)seed, s, style, dstAfterSrc, aborts, srcThrow, maxConsec, unmapped, full, small, maxStall, rcp, late, halfRcp);
	}
	return 0;
}
