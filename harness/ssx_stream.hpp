// ssx_stream.hpp: scripted random-byte streams for the SuperscalarHash generator (shared by rx_ssx and ss_find)
#pragma once
#include "vh.hpp"
#include <vector>
static std::vector<std::vector<uint8_t>> g_blocks; static size_t g_next = 0;
#include <dlfcn.h>
// The generator's refill is the one-shot call S = Hash512(S) (64 bytes in place): that call is served from the script.
// Any other one-shot call of the library (Argon2's H' when a cache is initialised) goes to the library's own function.
static bool g_onlyRefill = false;
extern "C" int randomx_blake2b(void* out, size_t outlen, const void* in, size_t inlen, const void* key, size_t keylen) {
	if (g_onlyRefill && !(out == in && outlen == 64 && inlen == 64 && keylen == 0)) {
		typedef int (*fn)(void*, size_t, const void*, size_t, const void*, size_t);
		static fn real = (fn)dlsym(RTLD_NEXT, "randomx_blake2b");
		return real(out, outlen, in, inlen, key, keylen);
	}
	if (g_next >= g_blocks.size()) { static vh::Rng fb(99); g_blocks.push_back(fb.bytes(64)); }   // script exhausted: continue with uniform blocks (they are logged like the others)
	memcpy(out, g_blocks[g_next++].data(), 64);
	return 0;
}
// one scripted stream is identified by (seed, index): reproducible on its own, so that streams known to reach
// rare generator paths (found by a design-time search, see lib/checks/c09.py) can be replayed in every run
static void make_stream(uint64_t seed, int s, unsigned& styleOut) {
	vh::Rng rng(seed * 1000003ULL + (uint64_t)s * 7919ULL + 17);
	static const uint8_t special[] = { 0, 0, 0, 1, 2, 4, 8, 16, 32, 64, 128, 255, 254, 3, 5, 127 };
	int style = s % 10;
	// streams with an index from 100000 on (style 10): uniform bytes, and in every block a run of 8-27 bytes with period 4 and at most one non-zero byte 2^j per
	// period - any 32-bit word read inside the run, at any alignment, is zero or a power of two (the high bit 2^31 more often than the others:
	// it is the one word whose sign matters), so the reciprocal-divisor redraw of the generator meets every no-op word
	if (s >= 100000) style = 10;
	styleOut = style;
	unsigned skew = style == 0 ? 0 : (style == 1 ? 30 : (style == 2 ? 60 : (style == 3 ? 85 : (style == 4 ? 95 : 100))));
	uint8_t small[4]; for (auto& x : small) x = (uint8_t)rng.next(); int nsmall = 2 + rng.below(3);
	uint8_t pat[16]; for (auto& x : pat) x = (uint8_t)rng.next(); int period = 1 + rng.below(16);
	unsigned q = rng.below(2) ? 12 : 88; uint8_t prev = (uint8_t)rng.next(); size_t pos = 0;
	g_blocks.clear(); g_next = 0;
	for (int b = 0; b < 6000; ++b) {
		std::vector<uint8_t> blk(64);
		for (auto& x : blk) {
			switch (style) {
			case 6: x = small[rng.below(nsmall)]; break;
			case 7: x = pat[pos++ % period]; if (rng.below(100) < 3) x = (uint8_t)rng.next(); break;
			case 8: if (rng.below(100) >= 90) prev = (uint8_t)rng.next(); x = prev; break;
			case 9: { uint8_t v = 0; for (int k = 0; k < 8; ++k) v |= (uint8_t)((rng.below(100) < q) << k); x = v; break; }
			default: x = rng.below(100) < skew ? special[rng.below(16)] : (uint8_t)rng.next();
			}
		}
		if (style == 10) { int runLen = 8 + (int)rng.below(20), start = (int)rng.below(64 - runLen + 1), j = rng.below(2) ? 7 : (int)rng.below(8), phase = (int)rng.below(4); bool zero = rng.below(8) == 0;
			for (int i = start; i < start + runLen; ++i) blk[i] = (!zero && (i % 4) == phase) ? (uint8_t)(1u << j) : 0; }
		g_blocks.push_back(blk);
	}
}
