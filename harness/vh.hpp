// Shared helpers for the binding harnesses: deterministic RNG, ndjson event writer.
// The harnesses only drive the real code and record what it did; they contain no oracle.
#pragma once
#include <cstdint>
#include <cstdio>
#include <cstdlib>
#include <cstring>
#include <string>
#include <vector>
#include <unistd.h>

namespace vh {

struct Rng {
	uint64_t s;
	explicit Rng(uint64_t seed) : s(seed * 0x9E3779B97F4A7C15ull + 0x1234567ull) { next(); next(); }
	uint64_t next() { // splitmix64
		uint64_t z = (s += 0x9E3779B97F4A7C15ull);
		z = (z ^ (z >> 30)) * 0xBF58476D1CE4E5B9ull;
		z = (z ^ (z >> 27)) * 0x94D049BB133111EBull;
		return z ^ (z >> 31);
	}
	uint32_t below(uint32_t n) { return n ? (uint32_t)(next() % n) : 0; }
	void fill(void* p, size_t n) { uint8_t* b = (uint8_t*)p; for (size_t i = 0; i < n; ++i) b[i] = (uint8_t)next(); }
	std::vector<uint8_t> bytes(size_t n) { std::vector<uint8_t> v(n); fill(v.data(), n); return v; }
};

// one ndjson line
struct Line {
	std::string s;
	bool first = true;
	Line() { s.reserve(4096); s = "{"; }
	void key(const char* k) { if (!first) s += ','; first = false; s += '"'; s += k; s += "\":"; }
	Line& str(const char* k, const char* v) { key(k); s += '"'; s += v; s += '"'; return *this; }
	Line& str(const char* k, const std::string& v) { return str(k, v.c_str()); }
	Line& num(const char* k, long long v) { key(k); s += std::to_string(v); return *this; }
	Line& boolean(const char* k, bool v) { key(k); s += v ? "true" : "false"; return *this; }
	void arr_bytes(const void* p, size_t n) {
		const uint8_t* b = (const uint8_t*)p; s += '[';
		char tmp[8];
		for (size_t i = 0; i < n; ++i) { if (i) s += ','; snprintf(tmp, sizeof tmp, "%u", b[i]); s += tmp; }
		s += ']';
	}
	Line& bytes(const char* k, const void* p, size_t n) { key(k); arr_bytes(p, n); return *this; }
	Line& bytes(const char* k, const std::vector<uint8_t>& v) { return bytes(k, v.data(), v.size()); }
	// 16-bit little-endian limbs of a byte buffer (n even)
	void arr_limbs(const void* p, size_t n) {
		const uint8_t* b = (const uint8_t*)p; s += '[';
		char tmp[8];
		for (size_t i = 0; i + 1 < n; i += 2) { if (i) s += ','; snprintf(tmp, sizeof tmp, "%u", b[i] | (b[i + 1] << 8)); s += tmp; }
		s += ']';
	}
	Line& limbs(const char* k, const void* p, size_t n) { key(k); arr_limbs(p, n); return *this; }
	// one 64-bit word as 4 limbs
	Line& w64(const char* k, uint64_t v) { return limbs(k, &v, 8); }
	// array of 64-bit words, each as [l0,l1,l2,l3]
	Line& words(const char* k, const uint64_t* w, size_t n) {
		key(k); s += '[';
		for (size_t i = 0; i < n; ++i) { if (i) s += ','; arr_limbs(&w[i], 8); }
		s += ']'; return *this;
	}
	Line& nums(const char* k, const std::vector<long long>& v) {
		key(k); s += '[';
		for (size_t i = 0; i < v.size(); ++i) { if (i) s += ','; s += std::to_string(v[i]); }
		s += ']'; return *this;
	}
	Line& raw(const char* k, const std::string& json) { key(k); s += json; return *this; }
	void emit(FILE* f) { s += "}\n"; fwrite(s.data(), 1, s.size(), f); }
};

inline std::string json_bytes(const void* p, size_t n) { Line l; l.s.clear(); l.arr_bytes(p, n); return l.s; }
inline std::string json_limbs(const void* p, size_t n) { Line l; l.s.clear(); l.arr_limbs(p, n); return l.s; }

inline const char* arg(int argc, char** argv, const char* name, const char* def) {
	for (int i = 1; i + 1 < argc; ++i) if (!strcmp(argv[i], name)) return argv[i + 1];
	return def;
}
inline bool flag(int argc, char** argv, const char* name) {
	for (int i = 1; i < argc; ++i) if (!strcmp(argv[i], name)) return true;
	return false;
}

} // namespace vh
