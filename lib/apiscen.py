"""Scenario pipeline for the API state machine: TLC-generated behaviours -> concrete scenarios ->
replay on the real library (harness/rx_api) -> recorded traces for TraceApi."""
import os, json, re, random, shutil, subprocess
from concurrent.futures import ThreadPoolExecutor
import vlib

# concrete instantiations of the abstract keys K1,K2 (adversarial pairs: prefix, empty, equal first
# 60 bytes, embedded NUL, last-byte difference, long)
KEYSETS = [
    (b'test key 000', b'test key 001'),
    (b'test key 000', b'test key 00'),          # K2 is a proper prefix of K1
    (b'', b'x'),                                # empty key
    (b'A' * 60 + b'tail-1', b'A' * 60 + b'tail-2'),   # identical first 60 bytes: same SuperscalarHash seed, different Argon2 password
    (b'k\x00a', b'k\x00b'),                     # embedded NUL
    (bytes(range(1, 65)), bytes(range(1, 64)) + b'\xff'),
    (b'RandomX example key\x00', b'RandomX example key'),
    (b'z' * 200, b'z' * 201),
    (b'rcp key 1186', b'rcp key 2708'),
    # (the pair above: 193 and 281 IMUL_RCP in the eight programs: re-keying K1 -> K2 makes the cache's reciprocal table grow beyond its capacity)
    (b'ab\x00cd', b'ab'),                        # K2 = the part of K1 before its embedded NUL (a C-string copy of K1 equals K2)
]
INPUTSETS = [
    (b'This is a test', b'Lorem ipsum dolor sit amet'),
    (b'', b'\x00'),
    (b'sed do eiusmod tempor incididunt ut labore et dolore magna aliqua' + b'\n', bytes(range(200))),
    (bytes([7]) * 127, bytes([7]) * 128),
    (b'A' * 129, b'nonce-0000000001' * 5),
]


# an input whose eight v1 programs under KEYSETS[0][0] contain no CFROUND at all (3e-4 of inputs; found by a design-time search on the unchanged
# tree): whatever an implementation derives from "the programs of the previous hash changed the rounding mode" is false after this input
NC_ISET = 99
NC_INPUTS = (b'no-cfround input #378', b'Lorem ipsum dolor sit amet')


def inputset(i):
    return NC_INPUTS if i == NC_ISET else INPUTSETS[i]


def hx(b):
    return b.hex() if b else '-'


def write_data(path, ks, iset):
    with open(path, 'w') as f:
        f.write('key K1 %s\nkey K2 %s\n' % (hx(KEYSETS[ks][0]), hx(KEYSETS[ks][1])))
        f.write('input I1 %s\ninput I2 %s\n' % (hx(inputset(iset)[0]), hx(inputset(iset)[1])))


def tlc_scenarios(cfg, num, depth, seed, module='RxApiSim', timeout=600):
    """random behaviours of the spec, each a list of action records (hist variable printed as JSON)"""
    r = vlib.tlc(module, cfg, workers=1, simulate='num=%d' % num, timeout=timeout,
                 extra=['-depth', str(depth), '-seed', str(seed)])
    if 'is violated' in r['out'] or 'Error:' in r['out']:
        return r, None
    out = []
    seen = set()
    for m in re.finditer(r'<<"SCN", (".*")>>', r['out']):
        try:
            s = json.loads(m.group(1))
        except Exception:
            continue
        if s in seen:
            continue
        seen.add(s)
        out.append(json.loads(s))
    return r, out


def features(h):
    """abstract situations a scenario exercises (used to pick a diverse subset)"""
    fs = set()
    rekeyed = set()
    released = False
    hashed = set()
    for i, a in enumerate(h):
        n = a['a']
        if n == 'InitCache':
            fs.add(('InitCache', a['skip']))
            if not a['skip']:
                rekeyed.add(a['c'])
        elif n == 'ReleaseCache':
            released = True
        elif n == 'AllocCache':
            fs.add(('AllocCache', 'after-release' if released else 'first'))
        elif n == 'SetCache':
            fs.add(('SetCache', a['kind'], a['rebind'], a['sameKey'], a['sameMem'], a['sameObj']))
        elif n == 'SetV2':
            fs.add(('SetV2', a['kind'], a['on']))
        elif n == 'CreateVm':
            fs.add(('CreateVm', a['kind'], a['v2']))
        elif n in ('Hash', 'HashNext', 'HashLast'):
            prev = h[i - 1]['a'] if i else ''
            fs.add((n, a['f']['kind'], a['f']['v2'], prev))
            fs.add((n, a['f']['kind'], 'rehash' if a['v'] in hashed else 'firsthash'))
            hashed.add(a['v'])
        elif n == 'HashFirst':
            prev = h[i - 1]['a'] if i else ''
            fs.add((n, a['f']['kind'], prev))
        else:
            fs.add((n,))
    return fs


def nhashes(h):
    return sum(1 for a in h if a['a'] in ('Hash', 'HashNext', 'HashLast'))


def select(hists, n, rng):
    """greedy cover of feature set; only scenarios that hash at least once"""
    cands = [(h, features(h)) for h in hists if nhashes(h) > 0]
    rng.shuffle(cands)
    covered = set()
    chosen = []
    while cands and len(chosen) < n:
        best = max(range(len(cands)), key=lambda i: (len(cands[i][1] - covered), nhashes(cands[i][0])))
        h, f = cands.pop(best)
        if not (f - covered) and len(chosen) >= n // 2:
            # nothing new: fill the rest randomly
            chosen.append(h)
            continue
        covered |= f
        chosen.append(h)
    return chosen, covered


def to_text(h, opts=None):
    """abstract history -> harness scenario text"""
    opts = opts or {}
    L = []
    for a in h:
        n = a['a']
        if n == 'AllocCache':
            L.append('AllocCache %s %s %s jit=%d argon=%d' % (a['c'], a['s'], a['m'], opts.get('cachejit', 0), opts.get('argon', 0)))
        elif n == 'InitCache':
            L.append('InitCache %s %s' % (a['c'], a['k']))
        elif n in ('ReleaseCache',):
            L.append('ReleaseCache %s' % a['c'])
        elif n in ('AppMalloc', 'AppFree'):
            L.append('%s %s' % (n, a['s']))
        elif n == 'AllocDataset':
            L.append('AllocDataset %s %s nchunks=%d' % (a['d'], a['m'], opts.get('nchunks', 2)))
        elif n == 'InitDatasetChunk':
            L.append('InitDatasetChunk %s %s %d' % (a['d'], a['c'], a['j']))
        elif n == 'ReleaseDataset':
            L.append('ReleaseDataset %s' % a['d'])
        elif n == 'CreateVm':
            L.append('CreateVm %s %s %s %s v2=%d hard=%d secure=%d' % (a['v'], a['kind'], a['c'], a['d'], 1 if a['v2'] else 0,
                                                                        opts.get('hard', 0), opts.get('secure', 0) if a['kind'] in ('CL', 'CF') else 0))
        elif n == 'SetCache':
            L.append('SetCache %s %s' % (a['v'], a['c']))
        elif n == 'SetDataset':
            L.append('SetDataset %s %s' % (a['v'], a['d']))
        elif n == 'SetV2':
            L.append('SetV2 %s %d' % (a['v'], 1 if a['on'] else 0))
        elif n == 'DestroyVm':
            L.append('DestroyVm %s' % a['v'])
        elif n == 'Hash':
            L.append('Hash %s %s key=%s' % (a['v'], a['in'], a['key']))
        elif n == 'HashFirst':
            L.append('HashFirst %s %s' % (a['v'], a['in']))
        elif n == 'HashNext':
            L.append('HashNext %s %s key=%s pin=%s' % (a['v'], a['in'], a['key'], a['pin']))
        elif n == 'HashLast':
            L.append('HashLast %s key=%s pin=%s' % (a['v'], a['key'], a['pin']))
        elif n == 'SetCsr':
            L.append('SetCsr %d' % a['csr'])
        elif n == 'FailAt':
            L.append('FailAt %d' % a['k'])
        else:
            raise vlib.Infra('unknown action ' + n)
    return '\n'.join(L) + '\n'


def late_rebind_history(kind):
    """a light VM bound at K1; the cache goes K1 -> K2 -> K1; only then randomx_vm_set_cache; two hashes"""
    A = lambda **k: k
    return [A(a='AllocCache', c='c1', s='s1', m='m1'), A(a='InitCache', c='c1', k='K1', skip=False), A(a='CreateVm', v='v1', kind=kind, c='c1', d='none', v2=False),
            A(a='Hash', v='v1', **{'in': 'I1'}, key='K1'), A(a='InitCache', c='c1', k='K2', skip=False), A(a='InitCache', c='c1', k='K1', skip=False),
            A(a='SetCache', v='v1', c='c1'), A(a='Hash', v='v1', **{'in': 'I1'}, key='K1'), A(a='Hash', v='v1', **{'in': 'I2'}, key='K1')]


def same_struct_new_memory_history(kind):
    """a light VM outlives its cache; the next cache gets the same struct address but another memory block, the same key; set_cache; hashes"""
    A = lambda **k: k
    return [A(a='AllocCache', c='c1', s='s1', m='m1'), A(a='InitCache', c='c1', k='K1', skip=False), A(a='CreateVm', v='v1', kind=kind, c='c1', d='none', v2=False),
            A(a='Hash', v='v1', **{'in': 'I1'}, key='K1'), A(a='ReleaseCache', c='c1'), A(a='AllocCache', c='c1', s='s1', m='m2'), A(a='InitCache', c='c1', k='K1', skip=False),
            A(a='SetCache', v='v1', c='c1'), A(a='Hash', v='v1', **{'in': 'I1'}, key='K1'), A(a='Hash', v='v1', **{'in': 'I2'}, key='K1')]


def exe():
    return vlib.build_harness('rx_api', extra=['-fno-access-control'])


def fresh_tables(combos, kinds, workdir):
    """digests from pristine objects for every (keyset, inputset) combo used: one process per combo"""
    binp = exe()
    os.makedirs(workdir, exist_ok=True)

    def one(c):
        ks, iset = c
        data = os.path.join(workdir, 'data_%d_%d.txt' % (ks, iset))
        write_data(data, ks, iset)
        scn = os.path.join(workdir, 'fresh_%d_%d.scn' % (ks, iset))
        with open(scn, 'w') as f:
            for k in ('K1', 'K2'):
                for i in ('I1', 'I2'):
                    for v2 in (0, 1):
                        for kind in (kinds(c) if callable(kinds) else kinds):
                            f.write('Fresh %s %s %d %s\n' % (k, i, v2, kind))
        outp = os.path.join(workdir, 'fresh_%d_%d.txt' % (ks, iset))
        rc, out = vlib.sh([binp, '--scenario', scn, '--data', data, '--out', outp], timeout=1200, check=False)
        got = open(outp).read() if os.path.exists(outp) else ''
        if sum(1 for l in got.splitlines() if '|' in l) != 8 * len(kinds(c) if callable(kinds) else kinds):
            if '"e":"Crash"' in got or '"e":"Timeout"' in got:
                # the LIBRARY crashed while computing a digest from pristine objects: the entries it did not produce are reported as
                # "missing" by the replay and every hash that needs one is rejected by the trace specification (a violation, with this cause)
                vlib.log('  fresh table for %s: the library crashed on pristine objects: %s' % (c, [l for l in got.splitlines() if '"e":"' in l][:1]))
                open(outp, 'w').write('\n'.join(l for l in got.splitlines() if '|' in l) + '\n')
            else:
                raise vlib.Infra('fresh table incomplete for %s (rc=%s)' % (c, rc))
        return c, (data, outp)
    with ThreadPoolExecutor(min(vlib.NCPU, max(1, len(combos)))) as ex:
        return dict(ex.map(one, combos))


def replay(scens, workdir, os_log=False, watchdog=300, par=None, binp=None):
    """scens: list of dicts {text, data, fresh}; returns list of trace line lists (one per scenario)"""
    binp = binp or exe()
    os.makedirs(workdir, exist_ok=True)

    def one(i):
        s = scens[i]
        scn = os.path.join(workdir, 's%04d.scn' % i)
        open(scn, 'w').write(s['text'])
        outp = os.path.join(workdir, 's%04d.ndjson' % i)
        cmd = [binp, '--scenario', scn, '--data', s['data'], '--out', outp, '--watchdog', str(watchdog)]
        if s.get('fresh'):
            cmd += ['--fresh', s['fresh']]
        if os_log:
            cmd += ['--os', '1']
        rc, out = vlib.sh(cmd, timeout=watchdog * 4 + 600, check=False)
        lines = [l for l in open(outp).read().splitlines() if l] if os.path.exists(outp) else []
        if rc != 0:
            lines.append(json.dumps({'e': 'HarnessExit', 'rc': rc, 'msg': out[-300:]}))
        return lines
    with ThreadPoolExecutor(par or vlib.NCPU) as ex:
        return list(ex.map(one, range(len(scens))))
