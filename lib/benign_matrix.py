#!/usr/bin/env python3
"""Runs quick checks against BEHAVIOUR-PRESERVING changes (benign/<name>/patch.diff) in scratch worktrees: every check must
exit 0.  A non-zero exit is a false alarm (1) or a lost binding (2) and is investigated, see DESIGN.md 0.8.
usage: benign_matrix.py [names...]"""
import os, sys, json
from concurrent.futures import ThreadPoolExecutor
V = os.path.dirname(os.path.dirname(os.path.abspath(__file__)))
sys.path.insert(0, os.path.join(V, 'lib'))
import selftest


def one(name):
    d = os.path.join(V, 'benign', name)
    meta = json.load(open(os.path.join(d, 'meta.json')))
    res = selftest.run_on_scratch(os.path.join(d, 'patch.diff'), meta['checks'], 'quick') or {}
    meta['checks_run'] = {c: {'exit': r['rc'], 'violations': r['violations'], 'wall_s': r['wall_s'], 'first': (r['detail'][0][:300] if r['detail'] else '')} for c, r in res.items()}
    meta['silent'] = all(r['rc'] == 0 for r in res.values()) and len(res) == len(meta['checks'])
    json.dump(meta, open(os.path.join(d, 'meta.json'), 'w'), indent=1)
    print(name, {c: r['rc'] for c, r in res.items()}, flush=True)
    return meta


def main():
    names = sorted(n for n in os.listdir(os.path.join(V, 'benign')) if os.path.exists(os.path.join(V, 'benign', n, 'patch.diff')))
    if len(sys.argv) > 1:
        names = [n for n in names if n in sys.argv[1:] or n.split('-')[0] in sys.argv[1:]]
    with ThreadPoolExecutor(3) as ex:
        list(ex.map(one, names))
    allm = [json.load(open(os.path.join(V, 'benign', n, 'meta.json'))) for n in sorted(os.listdir(os.path.join(V, 'benign'))) if os.path.exists(os.path.join(V, 'benign', n, 'meta.json'))]
    with open(os.path.join(V, 'benign', 'MATRIX.md'), 'w') as f:
        f.write('# Behaviour-preserving changes and the quick checks run on them (every exit code must be 0)\n\n| change | what | checks run -> exit code | silent |\n|---|---|---|---|\n')
        for m in allm:
            f.write('| %s | %s | %s | %s |\n' % (m['name'], m.get('what', '')[:160].replace('|', '/'), ', '.join('%s:%s' % (c, r['exit']) for c, r in m.get('checks_run', {}).items()), 'yes' if m.get('silent') else '**NO**'))


if __name__ == '__main__':
    main()
