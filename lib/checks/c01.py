"""C01 - all VM configurations compute the same hash (DESIGN 6-C01)."""
import os, json, shutil
from concurrent.futures import ThreadPoolExecutor
import vlib, apiscen

HARD, FULL, JIT, SECURE, V2 = 2, 4, 8, 16, 128
ARGON = {0: 'ref', 1: 'ssse3', 2: 'avx2'}


def vm_cfgs():
    out = []
    for full in (0, 1):
        for jit in (0, 1):
            for hard in (0, 1):
                for sec in ((0, 1) if jit else (0,)):
                    out.append((full, jit, hard, sec))
    return out   # 12 supported flag sets


NBULK = 48


def bulk_inputs(seed, idx):
    """seeded inputs for the bulk interpreter-vs-JIT comparison of scenario idx: name -> bytes"""
    import random
    rnd = random.Random(seed * 7919 + idx)
    return {'B%d_%d' % (idx, k): bytes(rnd.getrandbits(8) for _ in range(1 + rnd.randrange(150))) for k in range(NBULK)}


def ref_tables(combos, wd, bulk=None):
    binp = apiscen.exe()
    os.makedirs(wd, exist_ok=True)

    def one(c):
        ks, iset = c
        data = os.path.join(wd, 'data_%d_%d.txt' % c)
        apiscen.write_data(data, ks, iset)
        extra = (bulk or {}).get(c, {})
        with open(data, 'a') as f:
            for nm, b in sorted(extra.items()):
                f.write('input %s %s\n' % (nm, apiscen.hx(b)))
        scn = os.path.join(wd, 'ref_%d_%d.scn' % c)
        open(scn, 'w').write(''.join('FreshRef %s %s %d\n' % (k, i, v) for k in ('K1', 'K2') for i in ('I1', 'I2') for v in (0, 1))
                             + ''.join('FreshRef K1 %s %d\n' % (nm, int(nm.rsplit('_', 1)[1]) % 2) for nm in sorted(extra)))
        outp = os.path.join(wd, 'ref_%d_%d.txt' % c)
        vlib.sh([binp, '--scenario', scn, '--data', data, '--out', outp], timeout=1200)
        return c, (data, outp)
    with ThreadPoolExecutor(min(16, len(combos))) as ex:
        return dict(ex.map(one, combos))


def scenario(cachejit, argon, ks_inputs, thorough, idx, seed=1):
    """one cache configuration, then every VM flag set x version on it (dataset filled by this cache's own initialiser)"""
    L = ['AllocCache c1 any any jit=%d argon=%d' % (cachejit, argon), 'InitCache c1 K1', 'AllocDataset d1 dm1 nchunks=1', 'InitDatasetChunk d1 c1 1 self=1']
    n = 0
    for (full, jit, hard, sec) in vm_cfgs():
        kind = ('CF' if jit else 'IF') if full else ('CL' if jit else 'IL')
        for v2 in (0, 1):
            n += 1
            if full and not thorough and (n + idx) % 2:      # quick: each full-memory flag set in one version only
                continue
            L.append('CreateVm v1 %s %s %s v2=%d hard=%d secure=%d' % (kind, 'none' if full else 'c1', 'd1' if full else 'none', v2, hard, sec))
            inputs = ['I1', 'I2'] if (not full or thorough) else ['I1']
            if kind == 'IL' and not thorough:
                inputs = ['I1'] if v2 else ['I2']
            for i in inputs:
                L.append('Hash v1 %s key=K1' % i)
            L.append('DestroyVm v1')
    # the version bit switched on LIVE VMs (fast-mode JIT, light interpreter given both a cache and a dataset): the digest must be
    # the one of the version in force, for every engine
    L += ['CreateVm v4 CF none d1 v2=0 hard=1 secure=0', 'Hash v4 I1 key=K1', 'SetV2 v4 1', 'Hash v4 I1 key=K1', 'SetV2 v4 0', 'SetCache v4 c1', 'Hash v4 I2 key=K1', 'DestroyVm v4',
          'CreateVm v4 IF c1 d1 v2=1 hard=0 secure=0', 'SetCache v4 c1', 'Hash v4 I1 key=K1', 'DestroyVm v4',
          'CreateVm v4 IL c1 d1 v2=1 hard=0 secure=0', 'Hash v4 I2 key=K1', 'SetV2 v4 0', 'Hash v4 I2 key=K1', 'DestroyVm v4',
          'CreateVm v4 CL c1 d1 v2=0 hard=0 secure=1', 'Hash v4 I1 key=K1', 'SetV2 v4 1', 'Hash v4 I1 key=K1', 'DestroyVm v4']
    # many seeded inputs through the interpreter and the JIT on the same cache: engine disagreements that need a particular
    # instruction pattern in one of the 8 random programs show only on some inputs
    for v2 in (0, 1):
        names = [nm for nm in sorted(bulk_inputs(seed, idx)) if int(nm.rsplit('_', 1)[1]) % 2 == v2]
        for kind, hard, sec in (('IL', 0, 0), ('CL', 1, 1)):
            L.append('CreateVm v1 %s c1 none v2=%d hard=%d secure=%d' % (kind, v2, hard, sec))
            L += ['Hash v1 %s key=K1' % nm for nm in names]
            L.append('DestroyVm v1')
    # the same cache object re-keyed K1 -> K2 -> K1 under two VMs that stay alive and are re-bound with randomx_vm_set_cache
    # (a configuration must not differ in what it remembers of an earlier binding), and fresh VMs on the re-keyed cache
    L += ['CreateVm v2 CL c1 none v2=0 hard=0 secure=0', 'Hash v2 I1 key=K1', 'CreateVm v3 IL c1 none v2=1 hard=0 secure=0', 'Hash v3 I2 key=K1',
          'CreateVm v5 IL c1 none v2=0 hard=0 secure=0', 'Hash v5 I1 key=K1', 'CreateVm v6 CL c1 none v2=1 hard=0 secure=0', 'Hash v6 I1 key=K1']      # v5, v6: re-bound only after the LAST re-keying
    L += ['InitCache c1 K2', 'SetCache v2 c1', 'Hash v2 I1 key=K2', 'SetCache v3 c1', 'Hash v3 I2 key=K2',
          'CreateVm v1 CL c1 none v2=0 hard=1 secure=1', 'Hash v1 I1 key=K2', 'DestroyVm v1',
          'CreateVm v1 IL c1 none v2=1 hard=1 secure=0', 'Hash v1 I2 key=K2', 'DestroyVm v1']
    L += ['InitCache c1 K1', 'SetCache v2 c1', 'Hash v2 I2 key=K1', 'SetCache v3 c1', 'Hash v3 I1 key=K1', 'DestroyVm v2', 'DestroyVm v3',
          'SetCache v5 c1', 'Hash v5 I1 key=K1', 'SetCache v6 c1', 'Hash v6 I2 key=K1', 'DestroyVm v5', 'DestroyVm v6']
    L += ['ReleaseDataset d1', 'ReleaseCache c1']
    return '\n'.join(L) + '\n'


def to_cfg_lines(trace, cachejit, argon, build='default'):
    out = []
    cur = {}
    byvm = {}
    for l in trace:
        ev = json.loads(l)
        if ev['e'] == 'CreateVm':
            cur = ev
            byvm[ev.get('v')] = ev
            out.append(json.dumps({'e': 'vm', 'flags': ev['flags'], 'ok': ev['ok'], 'v2': ev.get('v2', False), 'clsCompiled': ev.get('clsCompiled'), 'clsLight': ev.get('clsLight'),
                                   'clsSoftAes': ev.get('clsSoftAes'), 'clsSecure': ev.get('clsSecure'), 'clsLarge': ev.get('clsLarge')}))
        elif ev['e'] == 'SetV2' and ev.get('v') in byvm:
            byvm[ev['v']] = dict(byvm[ev['v']], flags=(byvm[ev['v']]['flags'] | V2) if ev['on'] else (byvm[ev['v']]['flags'] & ~V2))
        elif ev['e'] == 'Hash':
            cur = byvm.get(ev.get('v'), cur)
            out.append(json.dumps({'e': 'hash', 'key': ev['key'], 'input': ev['in'], 'v2': bool(cur.get('flags', 0) & V2), 'out': ev['out'], 'ref': ev['fresh'],
                                   'vmflags': cur.get('flags'), 'cachejit': bool(cachejit), 'argon': ARGON[argon], 'build': build}))
        elif ev['e'] in ('Crash', 'Timeout', 'Exception', 'HarnessExit'):
            out.append(l)
    return out


def run():
    ck = vlib.Check('C01', 'model_checking')
    wd = os.path.join(vlib.WORK, 'c01')
    shutil.rmtree(wd, ignore_errors=True)
    os.makedirs(wd)
    r = vlib.tlc('RxCfg', 'MCCfg.cfg', workers=8, timeout=900)
    ck.add_model('MCCfg', r, 'every pair of (VM flag set (24 incl. secure), cache configuration (6), build (2), version) for one key/input: equal digests; dispatch table sound')
    if not r['ok']:
        ck.violation('model:RxCfg', 'configuration model violates an invariant', vlib.tlc_error_summary(r['out'], 50))
    cachecfgs = [(j, a) for j in (0, 1) for a in (0, 1, 2)]
    nks = len(apiscen.KEYSETS)
    reps = 3 if ck.thorough else 1
    scens = []
    for rep in range(reps):
        for idx, (cj, ar) in enumerate(cachecfgs):
            ks = 2 if (idx == 0 and rep == 0) else (8 if (idx == 1 and rep == 0) else (idx + rep * 3 + ck.seed) % nks)      # scenario 0: the pair with the empty key; scenario 1: the pair that makes the reciprocal table grow
            iset = (idx + rep + ck.seed) % len(apiscen.INPUTSETS)
            scens.append({'text': scenario(cj, ar, None, ck.thorough, idx + rep, ck.seed), 'ks': ks, 'iset': iset, 'cj': cj, 'ar': ar, 'idx': idx + rep})
    bulk = {}
    for s_ in scens:
        bulk.setdefault((s_['ks'], s_['iset']), {}).update(bulk_inputs(ck.seed, s_['idx']))
    tabs = ref_tables(sorted(set((s['ks'], s['iset']) for s in scens)), os.path.join(wd, 'ref'), bulk)
    for s in scens:
        s['data'], s['fresh'] = tabs[(s['ks'], s['iset'])]
    traces = apiscen.replay(scens, os.path.join(wd, 'replay'), watchdog=900)
    lines, group = [], []
    for j, t in enumerate(traces):
        cl = to_cfg_lines(t, scens[j]['cj'], scens[j]['ar'])
        # keys/inputs are concrete per scenario: make ids unique across scenarios for the `seen` history variable
        cl2 = []
        for l in cl:
            ev = json.loads(l)
            if ev.get('e') == 'hash':
                ev['key'] = 'ks%d:%s' % (scens[j]['ks'], ev['key'])
                ev['input'] = 'is%d:%s' % (scens[j]['iset'], ev['input'])
            cl2.append(json.dumps(ev))
        lines += cl2
        group += [0] * len(cl2)     # one group: `seen` must span all configurations
    res = vlib.validate_sharded('TraceCfg', 'TraceCfg.cfg', lines, 'c01', shards=1, timeout=1500, group=group, independent=True)
    ck.add_traces('TraceCfg', res, 'digests of every supported VM flag set x version on every cache configuration (dataset filled by that cache), dispatch class of every created VM')

    def key(rj):
        try:
            ev = json.loads(rj['line'])
            if ev['e'] == 'hash':
                return 'cfg:vmflags=%s:cachejit=%s:argon=%s' % (ev['vmflags'], ev['cachejit'], ev['argon'])
            if ev['e'] == 'vm':
                return 'dispatch:flags=%s' % ev['flags']
            return '%s:%s' % (ev['e'], ev.get('during', ''))
        except Exception:
            return 'trace'
    ck.reject('TraceCfg', res, key)
    # light-mode engines on chosen program buffers: configuration blocks whose dataset offset takes boundary values no hash input reaches
    # in practice (the offset is 19 random bits per program)
    from checks import c04
    lrec = c04.record_vm(ck, wd, ['light'])
    c04.validate_vm(ck, 'c01light', lrec['light'], 'light-mode interpreter vs light-mode JIT (soft and hard AES) over a real cache on program buffers with directed dataset offsets')
    # the interpreted and the compiled dataset-item function on synthetic well-formed programs (immediates around every sign boundary):
    # the two cache configurations must produce the same items, also for programs no key of the scenarios contains
    from checks import c09
    slines = c09.record(ck, wd, 0, 'synth')
    sres = vlib.validate_sharded('TraceSs', 'TraceSsNoGen.cfg', slines, 'c01synth', shards=16, timeout=3000, xmx='6g', group=c09.groups(slines), independent=False)
    ck.add_traces('TraceSs(synthetic items)', sres, 'synthetic SuperscalarHash program sets: interpreted item function = compiled item function = specification')
    ck.reject('TraceSs(synthetic items)', sres, lambda rj: 'synthitem')
    hs = [json.loads(l) for l in lines if l.startswith('{"e": "hash"')]
    ck.cov['hashes'] = len(hs)
    ck.cov['vm_flag_sets'] = sorted(set(h['vmflags'] % 128 for h in hs))
    ck.cov['cache_configurations'] = sorted(set('%s/%s' % (h['cachejit'], h['argon']) for h in hs))
    ck.cov['distinct_key_input_version'] = len(set((h['key'], h['input'], h['v2']) for h in hs))
    ck.cov['evaluations'] = len(hs) + r['generated']
    ck.cov['distinct_nontrivial'] = len(set((h['key'], h['input'], h['v2'], h['vmflags'], h['cachejit'], h['argon']) for h in hs)) + r['distinct']
    ck.cov['rule'] = 'each of the 12 supported VM flag sets x {v1,v2} on each of the 6 cache configurations, full-memory VMs over a dataset produced page by page by that cache\'s own initialiser (public randomx_init_dataset); rotating adversarial key/input pairs; distinct = distinct (key,input,version,vm flags,cache cfg)'
    ck.cov['rule'] += '; plus: lazily produced dataset pages come from 1-4 uneven public init calls, 48 further seeded inputs per cache through interpreter and JIT, live VMs re-bound across K1->K2->K1 (empty key, table-growing key pair), version switched on live VMs, VMs given both pointers, light-mode engines on programs with directed dataset offsets, synthetic item programs'
    ck.sample(lines[0])
    ck.sample(lines[1])
    ck.assumptions += ['LARGE_PAGES variants cannot be created here (no huge pages)', 'reference = interpreter, light mode, software AES, reference Argon2, computed in a separate process']
    if not res['rejected']:
        shutil.rmtree(wd, ignore_errors=True)
    return ck.finish()
