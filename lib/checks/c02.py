"""C02 - the hash equals the value defined by doc/specs.md (DESIGN 6-C02)."""
import os, json, shutil
from concurrent.futures import ThreadPoolExecutor
import vlib


def groups(lines):
    g, grp = -1, []
    for l in lines:
        if l.startswith('{"e":"h_begin"'):
            g += 1
        grp.append(max(g, 0))
    return grp


def key_of(rj):
    try:
        ev = json.loads(rj['line'])
        return 'hash:%s:%s' % (ev['e'], ':'.join('%s=%s' % (k, ev[k]) for k in ('i', 'ic', 'k', 'v2') if k in ev))
    except Exception:
        return 'trace'


def run():
    ck = vlib.Check('C02', 'model_checking')
    wd = os.path.join(vlib.WORK, 'c02')
    shutil.rmtree(wd, ignore_errors=True)
    os.makedirs(wd)
    exe = vlib.build_harness('rx_hash', extra=['-fno-access-control'])
    nproc = 4 if ck.thorough else 3

    def rec(i):
        outp = os.path.join(wd, 'hash%d.ndjson' % i)
        # two processes share the seed (run-to-run determinism: both recordings must satisfy the same functional specification)
        s = ck.seed + (i // 2)
        return vlib.run_harness([exe, '--seed', str(s), '--tier', ck.tier, '--hashes', '6' if ck.thorough else '2', '--out', outp], outp, timeout=1800)
    with ThreadPoolExecutor(nproc) as ex:
        recs = list(ex.map(rec, range(nproc)))
    lines = [l for r in recs for l in r]
    res = vlib.validate_sharded('TraceHash', 'TraceHash.cfg', lines, 'c02', shards=16, timeout=6000, xmx='6g', group=groups(lines), independent=False)
    ck.add_traces('TraceHash', res, 'intermediate values of real hashes: seed, scratchpad-fill links, generator hand-over, all 8 program buffers, sampled loop iterations executed by the TLA+ VM, register files, re-seeding, fingerprint links, final digest')
    ck.reject('TraceHash', res, key_of)
    # the arrows the composition takes as given are bound to the code here as well, on their own inputs: Blake2b (seed, re-seeding,
    # result, generator refill), the AES layer (fill, program generator, fingerprint), the Argon2d fill on reduced instances (cache)
    # and the SuperscalarHash program generator on directed byte streams (dataset item)
    from checks import c09, c10, c11, c12
    jobs = [lambda: c11.bind(ck, 'c02blake', big=True), lambda: c12.bind(ck, 'c02aes'), lambda: c10.bind(ck, os.path.join(wd, 'argon'), 'reduced', 'c02argon'),
            lambda: c09.scripted(ck, os.path.join(wd, 'ssx'), 'c02ssx', lite=True)]
    with ThreadPoolExecutor(len(jobs)) as ex:
        bound = []
        for f in [ex.submit(j) for j in jobs]:
            r = f.result()
            bound += list(r[0]) if isinstance(r, tuple) else list(r)
    kinds = {}
    for l in lines:
        e = l[6:l.index('"', 6)]
        kinds[e] = kinds.get(e, 0) + 1
    ck.cov['event_kinds'] = kinds
    ck.cov['hashes'] = kinds.get('h_begin', 0)
    ck.cov['iterations_executed_by_spec'] = kinds.get('h_iter', 0)
    ck.cov['states'] = max(ck.cov['states'], 1)
    ck.cov['transitions'] = max(ck.cov['transitions'], 1)
    ck.cov['evaluations'] = len(lines) + len(bound)
    ck.cov['distinct_nontrivial'] = len(set(lines)) + len(set(bound))
    ck.cov['arrow_binding_events'] = len(bound)
    ck.cov['rule'] = ('seeded (key, input, version) incl. empty key, empty input, multi-block input, key > 60 bytes; per hash: Blake2b seed, block 0 + first/last/8 random links of the 32768-block scratchpad fill, '
                      'all 8 program buffers (4-round generator chain recomputed completely), loop iterations 0 and a random one of programs 1, a middle one and 8 plus the very last iteration (thorough: also 1 and 2047), '
                      'all 8 register files and re-seedings, first/last/8 random links of the fingerprint chain (thorough: one full 2 MiB fingerprint), final Blake2b-256')
    ck.sample({'event': 'h_begin', **{k: v for k, v in json.loads(lines[0]).items() if k != 'e'}})
    it = [l for l in lines if l.startswith('{"e":"h_iter"')]
    if it:
        ev = json.loads(it[0])
        ck.sample({k: (v if len(str(v)) < 120 else str(v)[:120] + '...') for k, v in ev.items()})
    ck.assumptions += ['composition: dataset item VALUES are taken from the code here (item index is checked); item = specification is C08/C09, cache = Argon2d is C10',
                       'unsampled loop iterations and chain links are not recomputed; FP through the trusted primitive RxPrim!FpOp',
                       'interpreter light VM; other configurations inherit through C01/C04']
    if not res['rejected']:
        shutil.rmtree(wd, ignore_errors=True)
    return ck.finish()
