"""C03 - a hash does not depend on the history of VM, cache or dataset objects (DESIGN 6-C03)."""
import os, json, shutil
import vlib, apiscen


def scen_key(lines):
    """identify a rejected history by its sequence of calls (stable across runs)"""
    acts = []
    for l in lines:
        try:
            ev = json.loads(l)
        except Exception:
            continue
        acts.append(ev.get('e', '?')[:6] + ''.join(str(ev.get(k, ''))[:3] for k in ('c', 'v', 'k', 'kind')))
    return '-'.join(acts)[:150]


def run():
    ck = vlib.Check('C03', 'model_checking')
    wd = os.path.join(vlib.WORK, 'c03')
    shutil.rmtree(wd, ignore_errors=True)
    os.makedirs(wd)
    # 1. exhaustive: every history over the small universe (address reuse, foreign allocation, re-keying)
    r = vlib.tlc('MCApiHist', 'MCApiHistS.cfg', workers=16, timeout=3000, xmx='12g')
    ck.add_model('MCApiHist', r, '2 keys, 1 input, 2 caches, 2 light VMs (IL/CL), 2 struct + 2 memory addresses, foreign allocation; complete BFS modulo symmetry of object names')
    if ck.thorough:
        r0 = vlib.tlc('RxApi', 'MCApiHist.cfg', workers=16, timeout=3000, xmx='16g')
        ck.add_model('MCApiHist_nosym', r0, 'same universe without symmetry reduction')
        if not r0['ok']:
            ck.violation('model:MCApiHist', 'the API model violates history independence', vlib.tlc_error_summary(r0['out'], 60))
    if not r['ok']:
        ck.violation('model:MCApiHist', 'the API model violates history independence', vlib.tlc_error_summary(r['out'], 60))
    r2 = vlib.tlc('RxApi', 'MCApiPipe.cfg', workers=16, timeout=1500, xmx='12g')
    ck.add_model('MCApiPipe', r2, '1 key, 2 inputs, 1 cache, 2 VMs, pipelines, v1<->v2, rounding mode; complete BFS')
    if not r2['ok']:
        ck.violation('model:MCApiPipe', 'the API model violates history independence (pipeline/version)', vlib.tlc_error_summary(r2['out'], 60))
    r3 = vlib.tlc('RxApi', 'MCApiFull.cfg', workers=16, timeout=1500, xmx='12g')
    ck.add_model('MCApiFull', r3, '2 keys, 1 cache, 1 dataset x 2 chunks, 2 dataset addresses, full-memory VMs (IF/CF); complete BFS')
    if not r3['ok']:
        ck.violation('model:MCApiFull', 'the API model violates history independence (dataset)', vlib.tlc_error_summary(r3['out'], 60))

    # 2. spec -> code: TLC-generated behaviours replayed on the real library
    nsel = 400 if ck.thorough else 48
    nsim = 4000 if ck.thorough else 600
    rs, hists = apiscen.tlc_scenarios('SimApiHist.cfg', nsim, 22, ck.seed)
    if hists is None:
        ck.violation('model:SimApiHist', 'simulation found a violation in the model', vlib.tlc_error_summary(rs['out'], 60))
        hists = []
    rs2, hfull = apiscen.tlc_scenarios('SimApiFull.cfg', nsim // 4, 16, ck.seed + 1)
    chosen, covered = apiscen.select(hists, nsel, ck.rng)
    chosen_full, cov2 = apiscen.select(hfull or [], nsel // 8, ck.rng)
    ck.cov['scenario_features_covered'] = len(covered) + len(cov2)
    ck.cov['behaviours_generated'] = len(hists) + len(hfull or [])
    # directed histories (always replayed): the release/re-allocate/rebind shapes around the set_cache shortcut
    directed = json.load(open(os.path.join(vlib.VERIF, 'lib', 'c03_directed.json')))
    allh = [(h, False, None) for h in directed] + [(h, False, None) for h in chosen] + [(h, True, None) for h in chosen_full]
    # the re-keying histories (K1 -> K2 -> K1 with randomx_vm_set_cache on a live interpreter / JIT light VM) on EVERY adversarial key pair:
    # proper prefix, empty key, equal first 60 bytes, embedded NUL, K2 = K1 without its trailing NUL, table-growing pair, ...
    allh += [(h, False, ks) for h in (directed[2], directed[10]) for ks in range(len(apiscen.KEYSETS))]
    # ... and the variant in which the VM is re-bound only after the cache went K1 -> K2 -> K1 (what the VM kept from its first binding must
    # still be valid or be refreshed: pointers into the cache object, compiled code, remembered key)
    allh += [(apiscen.late_rebind_history(kind), False, ks) for kind in ('IL', 'CL') for ks in range(len(apiscen.KEYSETS))]
    allh += [(apiscen.same_struct_new_memory_history(kind), False, None) for kind in ('IL', 'CL')]
    scens = []
    combos = set()
    fullcombos = set()
    for i, (h, full, ksfix) in enumerate(allh):
        ks = ksfix if ksfix is not None else i % len(apiscen.KEYSETS)
        iset = (i // len(apiscen.KEYSETS)) % len(apiscen.INPUTSETS)
        if full:   # full-memory hashes run over a demand-initialised dataset (seconds each): few data combinations
            ks, iset = (0, 0) if not ck.thorough else (i % 3, 0)
            fullcombos.add((ks, iset))
        combos.add((ks, iset))
        opts = {'cachejit': (i // 3) % 2, 'argon': i % 3, 'hard': (i // 2) % 2, 'secure': (i // 5) % 2}
        scens.append({'hist': h, 'ks': ks, 'iset': iset, 'opts': opts, 'text': apiscen.to_text(h, opts)})
    vlib.log('[c03] models done at %.0fs; %d scenarios' % (ck.elapsed(), len(scens)))
    tabs = apiscen.fresh_tables(sorted(combos), lambda c: ['IL', 'CL', 'IF', 'CF'] if c in fullcombos else ['IL', 'CL'], os.path.join(wd, 'fresh'))
    vlib.log('[c03] fresh tables at %.0fs' % ck.elapsed())
    for s in scens:
        s['data'], s['fresh'] = tabs[(s['ks'], s['iset'])]
    traces = apiscen.replay(scens, os.path.join(wd, 'replay'), watchdog=600)
    vlib.log('[c03] replay done at %.0fs' % ck.elapsed())
    # 3. code -> spec: every recorded call must be the spec's action
    lines, group = [], []
    for i, t in enumerate(traces):
        lines += ['{"e":"Reset"}'] + t
        group += [i] * (len(t) + 1)
    res = vlib.validate_sharded('TraceApi', 'TraceApi.cfg', lines, 'c03', shards=16, timeout=1500, group=group, independent=False)
    # conformance with the model's internal decisions/state (skip & rebind decisions, pointers, version copies, reset word):
    # a mismatch is model drift, reported but not a violation of the property
    res2 = vlib.validate_sharded('TraceApi', 'TraceApiModel.cfg', lines, 'c03m', shards=16, timeout=1500, group=group, independent=False)
    ck.cov['parts']['TraceApiModel'] = {'trace_events_accepted': res2['accepted'], 'trace_events_total': res2['total'], 'model_drift': [x['line'][:240] for x in res2['rejected']][:5]}
    ck.cov['states'] += res2['states']
    ck.cov['transitions'] += res2['transitions']
    if res2['rejected'] and not res['rejected']:
        vlib.log('[c03] MODEL-DRIFT: %s' % res2['rejected'][0]['line'][:300])
    # a rejection inside one scenario hides the scenarios behind it in the same shard: re-validate those singly
    rejected = list(res['rejected'])
    ck.add_traces('TraceApi', res, 'API histories replayed on the real library (digest, fresh digest, internal pointers, skip decisions, FP word)')
    for rj in rejected:
        # find the scenario this line belongs to
        shard_lines = [l for l in open(rj['file']).read().splitlines() if l]
        upto = shard_lines[:rj['line_no']]
        start = max(i for i, l in enumerate(upto) if l == '{"e":"Reset"}')
        ck.violation('hist:' + scen_key(upto[start + 1:]), 'recorded call not allowed by the specification: %s' % rj['line'][:300],
                     {'scenario_trace': upto[start:], 'tlc': rj['tlc']})
    nh = sum(1 for l in lines if l.startswith('{"e":"Hash'))
    ck.cov['hash_events'] = nh
    ck.cov['scenarios_replayed'] = len(scens)
    ck.sample({'scenario': scens[0]['text'].splitlines(), 'keys': [k.hex() for k in apiscen.KEYSETS[scens[0]['ks']]]})
    if len(scens) > len(directed):
        ck.sample({'scenario': scens[len(directed)]['text'].splitlines()})
    ck.sample(traces[0][-1] if traces and traces[0] else '')
    ck.cov['evaluations'] = len(lines)
    ck.cov['distinct_nontrivial'] = len(set(s['text'] + str(s['ks']) + str(s['iset']) for s in scens))
    ck.cov['rule'] = ('behaviours generated by TLC -simulate from RxApiSim (history variable), greedy selection for coverage of abstract situations '
                      '(skip/rebind/same-object/same-memory combinations, VM kinds, versions, pipelines), plus directed release/re-allocate histories; '
                      'each replayed with a rotating concrete key pair (prefix pair, empty key, equal first 60 bytes, embedded NUL, ...) and input pair; '
                      'distinct = distinct (scenario text, key set, input set)')
    ck.assumptions += ['small-scope: 2 keys / 2 caches / 2 VMs / 2+2 addresses in the exhaustive model',
                       'fresh digests come from pristine objects of the same VM kind in a separate process']
    if not res['rejected']:
        shutil.rmtree(wd, ignore_errors=True)
    return ck.finish()
