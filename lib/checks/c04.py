"""C04 - x86-64 JIT-compiled programs behave exactly like interpreted programs (DESIGN 6-C04)."""
import os, json, shutil
from concurrent.futures import ThreadPoolExecutor
import vlib


def record_vm(ck, wd, parts, variant='verif', extra_flags=(), extra_args=()):
    try:      # with read-back of the branch targets the x86 JIT encoded (needs JitCompilerX86 internals); without it if they moved
        exe = vlib.build_harness('rx_vm', variant=variant, extra=['-fno-access-control', '-DVERIF_JIT_TARGETS'] + list(extra_flags))
    except vlib.Infra:
        vlib.log('  rx_vm: JIT branch-target read-back does not build on this tree; continuing without it')
        exe = vlib.build_harness('rx_vm', variant=variant, extra=['-fno-access-control'] + list(extra_flags))

    def go(part):
        outp = os.path.join(wd, 'vm_%s_%s.ndjson' % (variant, part))
        rc, out = vlib.sh([exe, '--seed', str(ck.seed), '--tier', ck.tier, '--part', part, '--out', outp] + list(extra_args), timeout=3000, check=False)
        ls = [l for l in open(outp).read().splitlines() if l] if os.path.exists(outp) else []
        if rc != 0:
            ls.append(json.dumps({'e': 'Crash', 'during': 'rx_vm ' + part, 'rc': rc}))
        if os.path.exists(outp):
            os.remove(outp)
        return ls
    with ThreadPoolExecutor(len(parts)) as ex:
        return dict(zip(parts, ex.map(go, parts)))


def groups(lines):
    grp, g = [], -1
    for l in lines:
        if l.startswith('{"e":"codebase"'):
            pass          # stays in the group of the preceding codelen line (the budget uses the learnt maximal length)
        elif '"first":true' in l or not l.startswith('{"e":"run"'):
            g += 1
        grp.append(g)
    return grp


def vm_key(rj):
    try:
        ev = json.loads(rj['line'])
        if ev['e'] == 'run':
            return 'run:%s:%s:soft=%s:v2=%s:n=%d' % (ev['tag'], ev['engine'], ev['soft'], ev['v2'], ev['n'])
        if ev['e'] == 'codegen':
            return 'codegen:op=%d:v2=%s:hard=%s:light=%s' % (ev['op'], ev['v2'], ev['hard'], ev['light'])
        return ev['e'] + ':' + str(ev.get('during', ''))
    except Exception:
        return 'trace'


def validate_vm(ck, name, lines, what):
    res = vlib.validate_sharded('TraceVm', 'TraceVm.cfg', lines, name, shards=16, timeout=3000, xmx='6g', group=groups(lines), independent=False)
    ck.add_traces('TraceVm(%s)' % name, res, what)
    # a rejection stops the shard: report each rejected program once
    for rj in res['rejected']:
        ck.violation(vm_key(rj), 'engine run rejected by the VM specification: %s' % rj['line'][:200], {'line': rj['line'][:4000], 'tlc': rj['tlc']})
    return res


def run():
    ck = vlib.Check('C04', 'model_checking')
    wd = os.path.join(vlib.WORK, 'c04')
    shutil.rmtree(wd, ignore_errors=True)
    os.makedirs(wd)
    # the VM specification is itself exercised exhaustively on the decode level by MCIsa (C05); here: binding of both engines
    recs = record_vm(ck, wd, ['oracle', 'diff', 'branch', 'light', 'sweep'])
    lines = recs['oracle'] + recs['branch'] + recs['diff'] + recs['light'] + recs['sweep']
    validate_vm(ck, 'c04', lines, 'program buffers run by interpreter and JIT (soft/hard AES, v1/v2, entry rounding modes 0-3): oracle runs executed by the TLA+ VM, full-length runs compared engine to engine')
    runs = [json.loads(l) for l in lines if l.startswith('{"e":"run"')]
    ck.cov['programs'] = sum(1 for r in runs if r.get('first'))
    ck.cov['engine_runs'] = len(runs)
    ck.cov['oracle_programs'] = sum(1 for r in runs if r.get('first') and r['tag'] == 'oracle')
    ck.cov['full_length_programs'] = sum(1 for r in runs if r.get('first') and r['tag'] == 'diff')
    ck.cov['evaluations'] = len(runs)
    ck.cov['distinct_nontrivial'] = ck.cov['programs']
    ck.cov['rule'] = ('seeded program buffers: uniformly random words, branch-/CFROUND-/store-heavy mixes, short programs padded with no-op IMUL_RCP words, worst-case length; '
                      'each run by 4 engines (interpreter/JIT x soft/hard AES) over pattern scratchpad + pattern dataset; oracle runs (1-3 iterations) are executed instruction by instruction by RxVm in TLC, '
                      'full runs (2048 iterations) must agree on the register file, rounding mode and a hash over every changed scratchpad word; every instruction kind x {src = dst, src != dst} x 35 immediates around the sign / size boundaries (oracle, both engines); light mode: interpreter vs JIT over a real cache with dataset offsets 0, 1, 127, 128, 129, 255, 256, ..., 2^19-1; distinct = distinct program')
    ck.cov['states'] = max(ck.cov['states'], 1)
    ck.cov['transitions'] = max(ck.cov['transitions'], 1)
    ck.sample({k: (v if len(str(v)) < 200 else str(v)[:200]) for k, v in runs[0].items()})
    ck.assumptions += ['programs are sampled (2^25600 program buffers exist)', 'FP through the trusted primitive RxPrim!FpOp', 'light-mode dataset reads are covered by C01 (digest level)']
    if not ck.violations:
        shutil.rmtree(wd, ignore_errors=True)
    return ck.finish()
