"""C05 - every instruction word executes with the specified semantics (DESIGN 6-C05)."""
import os, json, shutil
import vlib
from checks import c04


def key_of(rj):
    try:
        ev = json.loads(rj['line'])
        if ev['e'] == 'step':
            w = ev['w']
            return 'step:op=%d:type=%s:dst=%d:src=%d:mod=%d:v2=%s' % (w[0], ev['type'], w[1] % 8, w[2] % 8, w[3], ev['v2'])
        if ev['e'] == 'fp':
            return 'fp:%s:rc=%d' % (ev['op'], ev['rc'])
        return ev['e']
    except Exception:
        return 'trace'


def record(variant, parts, ck, wd, tag):
    exe = vlib.build_harness('rx_isa', variant=variant, extra=['-fno-access-control'])
    lines = []
    for part in parts:
        outp = os.path.join(wd, '%s_%s.ndjson' % (tag, part))
        lines += vlib.run_harness([exe, '--seed', str(ck.seed), '--tier', ck.tier, '--part', part, '--out', outp], outp, timeout=1800)
        if os.path.exists(outp):
            os.remove(outp)
    return lines


def run():
    ck = vlib.Check('C05', 'model_checking')
    wd = os.path.join(vlib.WORK, 'c05')
    shutil.rmtree(wd, ignore_errors=True)
    os.makedirs(wd)
    r = vlib.tlc('MCIsa', 'MCIsa.cfg', workers=16, timeout=1800)
    ck.add_model('MCIsa', r, 'all 256 opcodes x 9x9 dst/src bytes x 33 mod bytes (every mem/shift/cond value) x 12 immediate classes: structural facts of the decode result; literal opcode table = frequencies')
    if not r['ok']:
        ck.violation('model:MCIsa', 'instruction-set definition is inconsistent', vlib.tlc_error_summary(r['out'], 40))
    lines = record('verif', ['steps', 'mulgrid', 'memops', 'fp', 'rcp', 'sweep'], ck, wd, 'isa')      # (rcp, sweep: the reciprocal IMUL_RCP multiplies by - shared with C18)
    res = vlib.validate_sharded('TraceIsa', 'TraceIsa.cfg', lines, 'c05', shards=16, timeout=3000)
    ck.add_traces('TraceIsa', res, 'instruction words decoded and executed by the real BytecodeMachine from recorded states; host IEEE operations in all rounding modes')
    ck.reject('TraceIsa', res, key_of)
    # semantics that only show between instructions (a rounding mode set by CFROUND governs later FP instructions, also when a taken
    # CBRANCH re-executes them; last-writer bookkeeping of no-op forms): short loop programs executed by the interpreter and by RxVm
    recs = c04.record_vm(ck, wd, ['branch', 'sweep'], extra_args=['--np', '600' if ck.thorough else '160'])
    # (the sweep programs - every instruction kind x {src = dst, src != dst} x boundary immediates - keep all four engines)
    seq = [l for l in recs['branch'] if not l.startswith('{"e":"run"') or '"engine":"interp"' in l] + recs['sweep']
    c04.validate_vm(ck, 'c05seq', seq, 'loop programs (re-executed bodies with FP instructions and CFROUND, value-preserving writers, no-op IMUL_RCP) executed by the interpreter and by the TLA+ VM')
    ck.cov['loop_programs'] = sum(1 for l in seq if '"first":true' in l)
    kinds, ops = {}, set()
    for l in lines:
        if l.startswith('{"e":"step"'):
            ev = json.loads(l)
            kinds[ev['type']] = kinds.get(ev['type'], 0) + 1
            ops.add(ev['w'][0])
    ck.cov['steps_per_decoded_type'] = kinds
    ck.cov['opcodes_covered'] = len(ops)
    ck.cov['fp_primitive_events'] = sum(1 for l in lines if l.startswith('{"e":"fp"'))
    ck.cov['evaluations'] = len(lines) + r['generated']
    ck.cov['distinct_nontrivial'] = len(set(lines)) + r['distinct']
    ck.cov['rule'] = ('every opcode byte 0..255 with seeded dst/src/mod/imm (boundary classes: 0, +-1, 2^k, 2^k+-1, sign bit, aligned addresses), forced src==dst, dst=r5, mod.cond>=14, '
                      'CBRANCH with condition bits near zero, CFROUND rotate counts; register values from carry-chain corner classes, group F/E/A values incl. exact cancellation, +inf, near-overflow; both versions; 4 rounding modes')
    ck.sample(lines[0][:900])
    ck.sample(([l for l in lines if l.startswith('{"e":"fp"')] or [''])[0])
    ck.assumptions += ['RxPrim!FpOp (Java, exact BigDecimal error sign on top of strict IEEE doubles) is trusted and is compared with the host FPU on every fp event',
                       'operand values are sampled: 2^64 values per register cannot be enumerated']
    if not res['rejected']:
        shutil.rmtree(wd, ignore_errors=True)
    return ck.finish()
