"""C06 - execution and code generation stay inside their buffers (DESIGN 6-C06)."""
import os, json, shutil
import vlib, apiscen
from checks import c04


def run():
    ck = vlib.Check('C06', 'exploration')
    wd = os.path.join(vlib.WORK, 'c06')
    shutil.rmtree(wd, ignore_errors=True)
    os.makedirs(wd)
    # address arithmetic of the specification: every scratchpad mask keeps an 8-byte access inside 2 MiB, etc. (part of MCIsa's DecodeFacts)
    # engines over guarded memory: scratchpad between PROT_NONE pages, dataset extent ending at a PROT_NONE page
    recs = c04.record_vm(ck, wd, ['adversarial', 'codegen', 'codelen', 'oracle'])
    lines = recs['adversarial'] + recs['oracle'] + recs['codegen'] + recs['codelen']
    c04.validate_vm(ck, 'c06', lines, 'adversarial and random programs on both engines over guard-paged scratchpad and dataset (a fault is an out-of-bounds event), write set = specification write set, code-buffer layout after worst-case programs')
    # public hashing API: scratchpads allocated by the library are placed between inaccessible pages, the input ends at a page end,
    # the 32 output bytes end at a page end and are preceded by a canary
    scens = []
    i = 0
    for iset in range(len(apiscen.INPUTSETS)):
        for kind, hard, secure in (('IL', 0, 0), ('IL', 1, 0), ('CL', 0, 0), ('CL', 1, 1)):
            i += 1
            v2 = i % 2
            t = ['AllocCache c1 s1 m1 jit=%d' % (i % 2), 'InitCache c1 K1', 'CreateVm v1 %s c1 none v2=%d hard=%d secure=%d' % (kind, v2, hard, secure),
                 'Hash v1 I1 key=K1', 'Hash v1 I2 key=K1', 'HashFirst v1 I2', 'HashNext v1 I1 key=K1 pin=I2', 'HashLast v1 key=K1 pin=I1', 'DestroyVm v1', 'ReleaseCache c1']
            scens.append({'text': '\n'.join(t) + '\n', 'ks': 0, 'iset': iset})
    # the empty key (a fresh VM's remembered key is empty too), and VMs that are handed BOTH a cache and a dataset: a light VM must keep
    # using the cache (create and randomx_vm_set_dataset on a live light VM), a full-memory VM the dataset
    for kind, hard, secure in (('CL', 0, 1), ('IL', 1, 0)):
        t = ['AllocCache c1 s1 m1 jit=1', 'InitCache c1 K1', 'CreateVm v1 %s c1 none v2=0 hard=%d secure=%d' % (kind, hard, secure), 'Hash v1 I1 key=K1', 'Hash v1 I2 key=K1', 'DestroyVm v1', 'ReleaseCache c1']
        scens.append({'text': '\n'.join(t) + '\n', 'ks': 2, 'iset': 0})
    for kind in ('IL', 'CL'):
        t = ['AllocCache c1 s1 m1 jit=1', 'InitCache c1 K1', 'AllocDataset d1 dm1 nchunks=2', 'InitDatasetChunk d1 c1 1 self=1', 'InitDatasetChunk d1 c1 2 self=1',
             'CreateVm v1 %s c1 d1 v2=1 hard=0 secure=0' % kind, 'Hash v1 I1 key=K1', 'SetDataset v1 d1', 'Hash v1 I2 key=K1', 'DestroyVm v1',
             'CreateVm v1 %s c1 d1 v2=0 hard=0 secure=0' % ('IF' if kind == 'IL' else 'CF'), 'Hash v1 I1 key=K1', 'SetCache v1 c1', 'Hash v1 I2 key=K1', 'DestroyVm v1', 'ReleaseDataset d1', 'ReleaseCache c1']
        scens.append({'text': '\n'.join(t) + '\n', 'ks': 0, 'iset': 1, 'full': True})
    # object histories in which a VM outlives the cache it was bound to (release, a new cache at the same struct address with its memory
    # elsewhere, same key, randomx_vm_set_cache): the VM must read the NEW memory - the old block is inaccessible in this harness
    directed = json.load(open(os.path.join(vlib.VERIF, 'lib', 'c03_directed.json')))
    for hi in (0, 1, 8, 9):
        scens.append({'text': apiscen.to_text(directed[hi], {'cachejit': 1, 'argon': 0, 'hard': hi % 2, 'secure': 1 if hi >= 8 else 0}), 'ks': 0, 'iset': 0})
    for kind in ('IL', 'CL'):
        scens.append({'text': apiscen.to_text(apiscen.same_struct_new_memory_history(kind), {'cachejit': 1, 'argon': 0, 'hard': 0, 'secure': 0}), 'ks': 0, 'iset': 0})
    tabs = apiscen.fresh_tables(sorted(set((s['ks'], s['iset']) for s in scens)), lambda c: ['IL', 'CL', 'IF', 'CF'] if c == (0, 1) else ['IL', 'CL'], os.path.join(wd, 'fresh'))
    for s in scens:
        s['data'], s['fresh'] = tabs[(s['ks'], s['iset'])]
    traces = apiscen.replay(scens, os.path.join(wd, 'replay'), watchdog=600)
    alines, group = [], []
    for j, t in enumerate(traces):
        alines += ['{"e":"Reset"}'] + t
        group += [j] * (len(t) + 1)
    res = vlib.validate_sharded('TraceApi', 'TraceApi.cfg', alines, 'c06api', shards=16, timeout=1500, group=group, independent=False)
    ck.add_traces('TraceApi(guarded)', res, 'public hash calls with guarded scratchpad, input ending at a page end (lengths 0,1,14,26,65,127,128,129,200...), output before a guard page with canary')
    for rj in res['rejected']:
        ck.violation('api:' + rj['line'][:80].replace('"', ''), 'guarded API call rejected: %s' % rj['line'][:300], {'tlc': rj['tlc']})
    # the dataset writer: randomx_init_dataset on ranges that end at / near the last item, dataset extent between inaccessible pages
    exe = vlib.build_harness('rx_ds', extra=['-fno-access-control'])
    dlines = []
    for jit in (0, 1):
        outp = os.path.join(wd, 'dsend%d.ndjson' % jit)
        dlines += vlib.run_harness([exe, '--seed', str(ck.seed), '--tier', ck.tier, '--jit', str(jit), '--part', 'end', '--out', outp], outp, timeout=1500)
    dres = vlib.validate_sharded('TraceDataset', 'TraceDataset.cfg', dlines, 'c06ds', shards=8, timeout=900)
    ck.add_traces('TraceDataset(guarded end)', dres, 'randomx_init_dataset for every count 0..13 (and larger) x start alignment ending at or just before the last item, interpreted and compiled initialiser, extent followed by an inaccessible page and preceded by a canary')
    for rj in dres['rejected']:
        ck.violation('dataset-init:' + rj['line'][:90].replace('"', ''), 'dataset initialisation outside the requested range / extent: %s' % rj['line'][:300], rj)
    ck.cov['guarded_dataset_init_calls'] = sum(1 for l in dlines if l.startswith('{"e":"init"'))
    runs = [json.loads(l) for l in lines if l.startswith('{"e":"run"')]
    ck.cov['evaluations'] = len(runs) + sum(1 for l in lines if l.startswith('{"e":"codegen"')) + sum(1 for l in alines if l.startswith('{"e":"Hash'))
    ck.cov['distinct_nontrivial'] = sum(1 for r in runs if r.get('first')) + sum(1 for l in lines if l.startswith('{"e":"codegen"'))
    ck.cov['engine_runs'] = len(runs)
    ck.cov['codegen_cases'] = sum(1 for l in lines if l.startswith('{"e":"codegen"'))
    ck.cov['max_code_position'] = max([json.loads(l)['codePos'] for l in lines if l.startswith('{"e":"codegen"')] or [0])
    ck.cov['code_budget'] = {'instruction_word_classes_encoded': sum(json.loads(l)['combos'] for l in lines if l.startswith('{"e":"codelen"')),
                             'bound': 'base(flags) + program size x longest encoding <= start of the SuperscalarHash area, for all 8 flag sets', 'flag_sets': sum(1 for l in lines if l.startswith('{"e":"codebase"'))}
    ck.cov['guarded_api_hashes'] = sum(1 for l in alines if l.startswith('{"e":"Hash'))
    ck.cov['rule'] = ('programs: one worst-case-length encoding in all 384 slots for 12 instruction kinds (extreme and random operands), all-ones ma/mx with maximal dataset offset, random programs; '
                      'each on 4 engines, 2 and 2048 iterations, over a scratchpad between PROT_NONE pages and a dataset whose extent ends at a PROT_NONE page; code generation of the same programs '
                      '(v1/v2 x soft/hard AES x light/full) with the SuperscalarHash area compared before/after; public API with guarded buffers. Non-trivial = distinct program / codegen case')
    ck.cov['rule'] += '; plus: code budget over all 256x8x8x256 instruction word classes, dataset initialisation ending at the last item under guard pages, VMs outliving their cache (same struct address, new memory), set_cache / set_dataset on VMs of the other memory mode'
    ck.sample(([l for l in lines if l.startswith('{"e":"codegen"')] or [''])[0])
    ck.sample({k: (v if len(str(v)) < 160 else str(v)[:160]) for k, v in runs[0].items()})
    ck.assumptions += ['memory safety is observed through guard pages and write-set equality, not proved; reads that stay inside another mapped buffer of the library cannot fault',
                       'cache (light mode) bounds are exercised through the public API runs only', 'dataset writes are observed at the end of the extent (guard page) and around each requested range (pattern fill), not over the whole 2 GiB']
    if not ck.violations:
        shutil.rmtree(wd, ignore_errors=True)
    return ck.finish()
