"""C07 - every program terminates within a fixed instruction budget (DESIGN 6-C07)."""
import os, json, shutil
import vlib
from checks import c04


def run():
    ck = vlib.Check('C07', 'model_checking')
    wd = os.path.join(vlib.WORK, 'c07')
    shutil.rmtree(wd, ignore_errors=True)
    os.makedirs(wd)
    cfg = 'MCBranch5.cfg' if ck.thorough else 'MCBranch.cfg'
    r = vlib.tlc('RxBranch', cfg, workers=16, timeout=3000, xmx='16g')
    ck.add_model('MCBranch', r, 'carry-abstraction lemma over all 2*256*128*8 cases (+ non-vacuity, + necessity of the cleared bit); all %d programs of length %d over {W,S,N,B} on 3 registers, every run with takes constrained only by the lemma'
                 % (13 ** (5 if ck.thorough else 4), 5 if ck.thorough else 4))
    if not r['ok']:
        ck.violation('model:RxBranch', 'termination model violated', vlib.tlc_error_summary(r['out'], 50))
    rl = vlib.tlc('RxBranch', 'MCBranchLive.cfg', workers=8, timeout=1500, xmx='8g')
    ck.add_model('MCBranchLive', rl, 'liveness: under weak fairness of the step relation every run of every program of length 4 reaches the end (<>(pc = N))')
    if not rl['ok']:
        ck.violation('model:RxBranch:liveness', 'a run of the branch machine does not terminate', vlib.tlc_error_summary(rl['out'], 50))
    # the same lemma on the real window arithmetic, for every register value and immediate, proved by TLAPS for each condition position
    pr = vlib.tlaps('BranchLemma', timeout=1500)
    ck.cov['parts']['BranchLemma(TLAPS)'] = {'what': 'for b = 8..23, all r and cimm below 2^(b+8) with bit b set and bit b-1 cleared: never three consecutive takes',
                                             'obligations_proved': pr['proved'], 'ok': pr['ok'], 'wall_s': round(pr['wall'], 1)}
    if not pr['ok']:
        vlib.log('[c07] WARNING: TLAPS did not re-prove BranchLemma (rc=%s): %s' % (pr['rc'], pr['out'][-300:]))
    recs = c04.record_vm(ck, wd, ['branch', 'interleave'])
    lines = recs['branch'] + recs['interleave']
    c04.validate_vm(ck, 'c07', lines, 'concretised programs (writers, swaps, non-writers, CBRANCH engineered for 0/1/2 consecutive takes) run by both engines; executed-instruction count of the interpreter equals the count of the TLA+ VM and is <= 3 x program size per iteration')
    runs = [json.loads(l) for l in lines if l.startswith('{"e":"run"')]
    base = {}
    counts = [r['count'] - (384 if r['v2'] else 256) * r['n'] for r in runs if r['engine'] == 'interp' and r['soft']]
    ck.cov['programs'] = sum(1 for r in runs if r.get('first'))
    ck.cov['programs_with_taken_branches'] = sum(1 for c in counts if c > 0)
    ck.cov['max_extra_instructions_executed'] = max(counts) if counts else 0
    ck.cov['evaluations'] = len(runs) + r['generated']
    ck.cov['distinct_nontrivial'] = ck.cov['programs'] + r['distinct']
    ck.cov['rule'] = 'model: every abstract program and run; code: seeded concretisations, a program is non-trivial if a branch is actually taken (measured: programs_with_taken_branches)'
    ck.sample({k: (v if len(str(v)) < 160 else str(v)[:160]) for k, v in runs[0].items()})
    ck.assumptions += ['three abstract registers stand for eight (the decode rules are symmetric in register names)', 'the JIT is bound through equal final state with the interpreter and the TLA+ VM, its per-iteration count is not measured directly; a hang is caught by a watchdog']
    if not ck.violations:
        shutil.rmtree(wd, ignore_errors=True)
    return ck.finish()
