"""C08 - fast-mode dataset equals light-mode items, however initialised (DESIGN 6-C08)."""
import os, json, shutil
from concurrent.futures import ThreadPoolExecutor
import vlib


def run():
    ck = vlib.Check('C08', 'model_checking')
    wd = os.path.join(vlib.WORK, 'c08')
    shutil.rmtree(wd, ignore_errors=True)
    os.makedirs(wd)
    cfg = 'MCDataset16.cfg' if ck.thorough else 'MCDataset.cfg'
    r = vlib.tlc('Dataset', cfg, workers=16, timeout=1800, xmx='8g')
    ck.add_model('MCDataset', r, 'N=%d items, 2 threads, every pair of disjoint (start,count) requests, every interleaving of single-item writes' % (16 if ck.thorough else 13))
    if not r['ok']:
        ck.violation('model:Dataset', 'range-splitting model violates an invariant', vlib.tlc_error_summary(r['out'], 50))
    # the same range-splitting facts for EVERY start and count (not only N items): TLAPS proofs about DatasetSplit!InnerCalls
    pr = vlib.tlaps('DatasetLemma')
    ck.cov['parts']['DatasetLemma(TLAPS)'] = {'what': 'for all start, count in Nat: inner calls are positive multiples of 4 inside the request; for count >= 4 the items they write are exactly the requested ones',
                                              'obligations_proved': pr['proved'], 'ok': pr['ok'], 'wall_s': round(pr['wall'], 1)}
    if not pr['ok']:
        vlib.log('[c08] WARNING: TLAPS did not re-prove DatasetLemma (rc=%s): %s' % (pr['rc'], pr['out'][-300:]))
    exe = vlib.build_harness('rx_ds', extra=['-fno-access-control'])

    def go(jit):
        outp = os.path.join(wd, 'ds%d.ndjson' % jit)
        return vlib.run_harness([exe, '--seed', str(ck.seed), '--tier', ck.tier, '--jit', str(jit), '--out', outp] + (['--full', '1'] if ck.thorough and jit else []), outp, timeout=3000)
    with ThreadPoolExecutor(2) as ex:
        parts = list(ex.map(go, [0, 1]))
    lines = parts[0] + parts[1]
    from checks import c09   # item = specification: shared with C09 (dataset items recomputed by TLC)
    item_lines, item_res = c09.item_conformance(ck, wd)
    res = vlib.validate_sharded('TraceDataset', 'TraceDataset.cfg', lines, 'c08', shards=8, timeout=900)
    ck.add_traces('TraceDataset', res, 'real randomx_init_dataset calls: inner calls via trampoline, changed-item set, comparison with light-mode items, multi-thread partitions')

    def key(rj):
        try:
            ev = json.loads(rj['line'])
            if ev['e'] == 'init':
                return 'init:jit=%s:start%%4=%d:count=%d:%s' % (ev['jit'], ev['start'] % 4, ev['count'], 'atend' if ev['start'] + ev['count'] == ev['total'] else 'inner')
            return 'multi:jit=%s:threads=%d' % (ev['jit'], ev['threads'])
        except Exception:
            return 'trace'
    ck.reject('TraceDataset', res, key)
    # conformance of the splitting model (inner calls as Dataset!InnerCalls): drift is reported, it is not a C08 violation
    res2 = vlib.validate_sharded('TraceDataset', 'TraceDatasetModel.cfg', lines, 'c08m', shards=8, timeout=900)
    ck.cov['parts']['TraceDatasetModel'] = {'trace_events_accepted': res2['accepted'], 'trace_events_total': res2['total'], 'model_drift': [x['line'][:200] for x in res2['rejected']][:5]}
    ck.cov['states'] += res2['states']
    ck.cov['transitions'] += res2['transitions']
    if res2['rejected'] and not res['rejected']:
        vlib.log('[c08] MODEL-DRIFT: inner calls differ from Dataset!InnerCalls: %s' % res2['rejected'][0]['line'][:200])
    if item_res is not None:
        ck.add_traces('TraceSs(items)', item_res, 'dataset items recomputed by the TLA+ item construction from the key')
        ck.reject('TraceSs(items)', item_res, lambda rj: 'item')
    ck.cov['init_calls'] = sum(1 for l in lines if l.startswith('{"e":"init"'))
    ck.cov['multi_thread_runs'] = sum(1 for l in lines if l.startswith('{"e":"multi"'))
    ck.cov['evaluations'] = len(lines) + r['generated']
    ck.cov['distinct_nontrivial'] = len(set(lines)) + r['distinct']
    ck.cov['rule'] = ('model: all (start,count) pairs of 2 threads for N items; code: counts 0..13 and larger x start alignment 0..3 x bases {0, middle, end of dataset}, '
                      'seeded random requests, both cache flavours (interpreted / compiled initialiser), multi-thread random partitions incl. ranges shorter than 4 and the last items')
    ck.cov['rule'] += '; plus: re-keyed cache object sequences (prefix / extension / same first 60 bytes / NUL / empty), one call over more than 2^25 items with a one-instruction-program cache, TLAPS lemmas for every start and count'
    ck.sample(lines[5])
    ck.sample(([l for l in lines if l.startswith('{"e":"multi"')] or [''])[0])
    ck.assumptions += ['light-mode item function (initDatasetItem) is the reference for item values here; its agreement with specs.md 7.3 is checked on sampled items by TLC (shared with C09)']
    if not res['rejected']:
        shutil.rmtree(wd, ignore_errors=True)
    return ck.finish()
