"""C09 - SuperscalarHash programs are well-formed and spec-conformant (DESIGN 6-C09). (item oracle shared with C08)"""
import os, re, json, shutil
import vlib


# streams (seed:index of harness/ssx_stream.hpp) found at design time to take the rarest generator path seen so far: an
# instruction thrown away for lack of a destination register after its source search had already stalled
STATIC_PICKS = ['1:757', '1:1148', '1:1657', '1:2391',
                # generation ends on a macro-op committed beyond cycle 170 (port map rows 171-173) / between the two macro-ops of an IMUL_RCP
                '1:3692', '1:7140', '1:8703', '1:1358', '1:2930', '1:4709',
                # style-10 streams: runs in which every 32-bit word is zero or a power of two, 2^31 the most frequent (the divisor redraw of IMUL_RCP)
                '1:100000', '1:100001', '1:100002', '1:100003', '1:100004', '1:100005']
# stream whose eight programs contain 672 IMUL_RCP instructions (real keys: about 240): randomx_init_cache is run on it
INIT_PICKS = ['1:2456', '1:100000']   # the second: a style-10 stream (every no-op divisor word is met by the redraw, 2^31 included)


def record(ck, wd, keys, tag='ss'):
    exe = vlib.build_harness('rx_ss', extra=['-fno-access-control'])
    outp = os.path.join(wd, tag + '.ndjson')
    rc, out = vlib.sh([exe, '--seed', str(ck.seed), '--tier', ck.tier, '--keys', str(keys), '--out', outp], timeout=1800, check=False)
    lines = [l for l in open(outp).read().splitlines() if l] if os.path.exists(outp) else []
    if rc != 0:
        lines.append(json.dumps({'e': 'Crash', 'during': 'rx_ss', 'rc': rc}))
    return lines


def groups(lines):
    g, grp = -1, []
    for l in lines:
        if l.startswith('{"e":"ss'):
            g += 1
        grp.append(max(g, 0))
    return grp


def key_of(rj):
    try:
        ev = json.loads(rj['line'])
        if ev['e'] == 'ss':
            return 'ss:key=%s' % bytes(ev['key'][:12]).hex()
        if ev['e'] == 'item':
            return 'item:%d' % (ev['item'][0] + 65536 * ev['item'][1])
        return '%s:%s' % (ev['e'], ev.get('prog', ev.get('during', '')))
    except Exception:
        return 'trace'


def item_conformance(ck, wd):
    """dataset items recomputed by the TLA+ item construction (used by C08): programs taken from the real generator, checked well-formed"""
    lines = record(ck, wd, 2 if not ck.thorough else 6, 'items')
    lines = [l for l in lines if not l.startswith('{"e":"exec"')]
    res = vlib.validate_sharded('TraceSs', 'TraceSsNoGen.cfg', lines, 'c08items', shards=16, timeout=3000, xmx='6g', group=groups(lines), independent=False)
    return lines, res


def scripted(ck, wd, tag='c09x', lite=False):
    """SuperscalarHash generator along scripted byte streams (also used by C02 for the program-generation arrow)"""
    # generator logic along scripted byte streams with skewed distributions (rare paths made frequent).
    # Stream selection is coverage-directed: ss_find (the tree's own superscalar.cpp with its TRACE output on) names the
    # streams of a large seeded pool on which rarely taken paths are taken; those, a fixed design-time list and
    # plain seeded streams are replayed on the library and validated against the generator machine.
    exe2 = vlib.build_harness('rx_ssx', shared=True)
    picks = list(STATIC_PICKS)
    pool = 60000 if ck.thorough else (3000 if lite else 6000)
    found = {}
    try:
        fx = vlib.build_harness('ss_find', nolib=True)
        rc, fo = vlib.sh([fx, '--seed', str(ck.seed), '--first', '1000', '--streams', str(pool)], timeout=1500, check=False)
        want = {'dstAfterSrcStall': 1, 'maxConsec': 3, 'maxStall': 4, 'srcThrow': 1, 'small': 1, 'aborts': 1, 'unmapped': 1, 'full': 1, 'late': 1, 'halfRcp': 1}
        quota = 24 if ck.thorough else 3
        for ln in fo.splitlines():
            m = re.match(r'S (\d+:\d+) (.*)', ln)
            if not m:
                continue
            f = dict((k, int(v)) for k, v in re.findall(r'(\w+)=(\d+)', m.group(2)))
            for k, thr in want.items():
                if f.get(k, 0) >= thr and len(found.setdefault(k, [])) < quota and m.group(1) not in picks:
                    found[k].append(m.group(1))
                    picks.append(m.group(1))
                    break
    except vlib.Infra as e:
        vlib.log('  ss_find unavailable on this tree (%s); using the fixed stream list only' % str(e)[:200])
    # randomx_init_cache itself on scripted streams: streams with more IMUL_RCP instructions in the eight programs than the reciprocal
    # table of any real key holds (a fixed pick with 672 of them, and pool streams just above 288 / with the most)
    inits = []
    if not lite:
        inits = list(INIT_PICKS)
        try:
            rc, fo = vlib.sh([fx, '--seed', str(ck.seed), '--first', '5000', '--streams', '2400' if ck.thorough else '500', '--progs', '8'], timeout=1500, check=False)
            cand = sorted((int(m.group(2)), m.group(1)) for m in re.finditer(r'S (\d+:\d+) .* rcp=(\d+)', fo))
            above = [c for c in cand if 289 <= c[0] <= 340]
            for c in (above[:1] + cand[-1:] if not ck.thorough else above[:4] + cand[-3:] + cand[len(cand) // 2:len(cand) // 2 + 2]):
                if c[1] not in inits:
                    inits.append(c[1])
            found['init_rcp'] = inits
        except (vlib.Infra, NameError):
            pass
    os.makedirs(wd, exist_ok=True)
    outp = os.path.join(wd, tag + '_ssx.ndjson')
    nseeded = 600 if ck.thorough else (20 if lite else 30)
    xl = vlib.run_harness([exe2, '--seed', str(ck.seed), '--tier', ck.tier, '--streams', str(nseeded), '--pick', ','.join(picks), '--init', ','.join(inits), '--out', outp], outp, timeout=1800)
    res2 = vlib.validate_sharded('TraceSs', 'TraceSsNoGen.cfg', xl, tag, shards=16, timeout=6000, xmx='4g')
    ck.add_traces('TraceSs(scripted)', res2, 'programs generated by the real code from scripted random-byte streams (Blake2b refill interposed in the shared-object build): same programs and same number of consumed blocks as the generator machine; well-formedness under any stream')
    ck.reject('TraceSs(scripted)', res2, lambda rj: '%s:stream=%s:%s' % (json.loads(rj['line']).get('e'), json.loads(rj['line']).get('sseed'), json.loads(rj['line']).get('idx')))
    ck.cov['directed_streams'] = {'fixed': list(STATIC_PICKS), 'found_by_ss_find': found, 'pool': pool}
    return xl, res2, found


def scripted_init(ck, wd, tag='c18init'):
    """only the randomx_init_cache part: reciprocal table and immediate replacement on streams rich in IMUL_RCP (used by C18)"""
    exe2 = vlib.build_harness('rx_ssx', shared=True)
    os.makedirs(wd, exist_ok=True)
    outp = os.path.join(wd, tag + '_ssx.ndjson')
    xl = vlib.run_harness([exe2, '--seed', str(ck.seed), '--tier', ck.tier, '--streams', '0', '--init', ','.join(INIT_PICKS + ['1:5257']), '--out', outp], outp, timeout=1800)
    res = vlib.validate_sharded('TraceSs', 'TraceSsNoGen.cfg', xl, tag, shards=4, timeout=6000, xmx='4g')
    ck.add_traces('TraceSs(init_cache, scripted)', res, 'randomx_init_cache on scripted generator streams with 300-700 IMUL_RCP instructions: the cache the library builds computes the dataset items of the generated programs (every IMUL_RCP multiplying by the reciprocal of its own divisor)')
    ck.reject('TraceSs(init_cache, scripted)', res, lambda rj: 'ssinit:stream=%s:%s' % (json.loads(rj['line']).get('sseed'), json.loads(rj['line']).get('idx')))
    if ck.thorough:     # representation of the initialised cache (immediates = table indices, table = reciprocals): model conformance only
        resm = vlib.validate_sharded('TraceSs', 'TraceSsRepr.cfg', xl, tag + 'm', shards=4, timeout=6000, xmx='4g')
        ck.cov['parts']['TraceSsRepr'] = {'trace_events_accepted': resm['accepted'], 'trace_events_total': resm['total'], 'model_drift': [x['line'][:160] for x in resm['rejected']][:3]}
        if resm['rejected'] and not res['rejected']:
            vlib.log('[c09] MODEL-DRIFT: representation of an initialised cache differs from the model (items are right)')
    return xl, res


def path_stats(prints):
    """which generator paths the validated programs took, counted by the generator machine itself (ghost statistics)"""
    paths = {'programs': 0, 'throw_away': 0, 'aborted_buffers': 0, 'lookahead_cycles': 0, 'unmappable_op': 0, 'max_consecutive_throw_away': 0, 'dst_throw_after_src_stall': 0}
    for pr in prints:
        m = re.match(r'<<"SSSTAT", (\d+), (\d+), <<(.*)>>>>', pr.strip())
        if m:
            for t in re.findall(r'<<([0-9, ]+)>>', m.group(3)):
                v = [int(x) for x in t.split(',')]
                paths['programs'] += 1
                paths['throw_away'] += v[0]
                paths['aborted_buffers'] += v[1]
                paths['lookahead_cycles'] += v[2]
                paths['unmappable_op'] += v[3]
                paths['max_consecutive_throw_away'] = max(paths['max_consecutive_throw_away'], v[4])
                paths['dst_throw_after_src_stall'] += v[5]
    return paths


def run():
    ck = vlib.Check('C09', 'model_checking')
    wd = os.path.join(vlib.WORK, 'c09')
    shutil.rmtree(wd, ignore_errors=True)
    os.makedirs(wd)
    nkeys = 32 if ck.thorough else 6
    lines = record(ck, wd, nkeys)
    res = vlib.validate_sharded('TraceSs', 'TraceSs.cfg', lines, 'c09', shards=16, timeout=6000, xmx='6g', group=groups(lines), independent=False)
    ck.add_traces('TraceSs', res, 'eight generated programs per key compared instruction by instruction with the generator machine run by TLC; well-formedness; address register; program interpreter; interpreted and JIT-compiled dataset items over a pattern cache')
    ck.reject('TraceSs', res, key_of)
    xl, res2, found = scripted(ck, wd)
    paths = path_stats(res['prints'] + res2['prints'])
    ck.cov['generator_paths_taken'] = paths
    ck.cov['scripted_streams'] = len(xl)
    ss = [json.loads(l) for l in lines if l.startswith('{"e":"ss"')]
    sizes = [p['size'] for s in ss for p in s['progs']]
    ops = {}
    for s in ss:
        for p in s['progs']:
            for ins in p['ins']:
                ops[ins[0]] = ops.get(ins[0], 0) + 1
    ck.cov['keys'] = len(ss)
    ck.cov['key_lengths'] = [len(s['key']) for s in ss]
    ck.cov['programs'] = len(sizes)
    ck.cov['program_sizes_min_max'] = [min(sizes), max(sizes)] if sizes else []
    ck.cov['instructions_by_type'] = {str(k): v for k, v in sorted(ops.items())}
    ck.cov['exec_events'] = sum(1 for l in lines if l.startswith('{"e":"exec"'))
    ck.cov['item_events'] = sum(1 for l in lines if l.startswith('{"e":"item"'))
    ck.cov['states'] = max(ck.cov['states'], 1)
    ck.cov['transitions'] = max(ck.cov['transitions'], 1)
    ck.cov['evaluations'] = len(lines)
    ck.cov['distinct_nontrivial'] = len(sizes) + ck.cov['exec_events'] + ck.cov['item_events']
    ck.cov['rule'] = 'seeded keys of length 0, 60, 200 and random; every generated program is one non-trivial case (about 450 instructions, each compared with the TLA+ generator); register inputs from carry-chain corner classes; items 0, the last ones, the 2^22 cache wrap and random ones'
    ck.sample({'key': ss[0]['key'], 'first_program_size': ss[0]['progs'][0]['size'], 'first_instructions': ss[0]['progs'][0]['ins'][:6]})
    ck.sample(([l for l in lines if l.startswith('{"e":"item"')] or [''])[0][:400])
    ck.assumptions += ['"for all keys" is sampled; rare generator paths are reached through coverage-directed scripted streams (see generator_paths_taken); paths never observed in any stream: aborted decode buffer (needs 256 consecutive throw-aways), unmappable macro-op',
                       'specs.md chapter 6 does not fix the order in which random bytes are consumed; the TLA+ generator fixes it as the reference implementation does']
    if not res['rejected']:
        shutil.rmtree(wd, ignore_errors=True)
    return ck.finish()
