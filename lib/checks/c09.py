"""C09 - SuperscalarHash programs are well-formed and spec-conformant (DESIGN 6-C09). (item oracle shared with C08)"""
import vlib


def item_conformance(ck, wd):
    """dataset items recomputed by the TLA+ item construction; returns (lines, validation result) or ([], None)"""
    return [], None
