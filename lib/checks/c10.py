"""C10 - the cache is the Argon2d memory fill, identical across implementations (DESIGN 6-C10)."""
import os, json, shutil
import vlib


def key_of(rj):
    try:
        ev = json.loads(rj['line'])
        if ev['e'] == 'argon':
            return 'argon:%s:m=%d:t=%d:keylen=%d' % (ev['impl'], ev['m'], ev['t'], len(ev['key']))
        if ev['e'] == 'ablock':
            return 'ablock:%s:pass=%d:slice=%d:%s' % (ev['impl'], ev['pass'], ev['slice'], 'first' if ev['index'] in (0, 2) else ('last' if ev['index'] == ev['m'] // 4 - 1 else 'inner'))
        if ev['e'] == 'same':
            return 'same:' + ev['what'].replace(' ', '_')
        return ev['e']
    except Exception:
        return 'trace'


def bind(ck, wd, part='all', tag='c10'):
    """binding of the real Argon2 fill to the TLA+ Argon2d (part 'reduced' is also used by C02 for the cache arrow)"""
    exe = vlib.build_harness('rx_argon', extra=['-fno-access-control'])
    os.makedirs(wd, exist_ok=True)
    outp = os.path.join(wd, tag + '_argon.ndjson')
    lines = vlib.run_harness([exe, '--seed', str(ck.seed), '--tier', ck.tier, '--part', part, '--out', outp], outp, timeout=1800)
    res = vlib.validate_sharded('TraceArgon', 'TraceArgon.cfg', lines, tag, shards=16, timeout=3000, xmx='4g')
    ck.add_traces('TraceArgon', res, 'reduced instances recomputed completely by the TLA+ Argon2d; full-size fill checked block by block at sampled positions (index mapping + compression); implementation / re-keying difference counts')
    ck.reject('TraceArgon', res, key_of)
    return lines, res


def run():
    ck = vlib.Check('C10', 'model_checking')
    wd = os.path.join(vlib.WORK, 'c10')
    shutil.rmtree(wd, ignore_errors=True)
    os.makedirs(wd)
    for cfg, what in (('MCArgon.cfg', 'm=16 blocks, t=3 passes'), ('MCArgon8.cfg', 'm=8 blocks, t=2 passes')):
        r = vlib.tlc('MCArgon', cfg, workers=4, timeout=600)
        ck.add_model(cfg[:-4], r, 'segment schedule with J1 chosen from a boundary set at every step; ' + what)
        if not r['ok']:
            ck.violation('model:' + cfg, 'Argon2 schedule model violates an invariant', vlib.tlc_error_summary(r['out'], 40))
    lines, res = bind(ck, wd)
    ck.cov['reduced_instances'] = sum(1 for l in lines if l.startswith('{"e":"argon"'))
    ck.cov['full_size_blocks_checked'] = sum(1 for l in lines if l.startswith('{"e":"ablock"'))
    ck.cov['difference_counts'] = [json.loads(l)['what'] for l in lines if l.startswith('{"e":"same"')]
    ck.cov['evaluations'] = len(lines) + ck.cov['transitions']
    ck.cov['distinct_nontrivial'] = len(set(lines)) + ck.cov['states']
    ck.cov['rule'] = ('reduced instances (m in 8/16/32 blocks, t in 1..3, key lengths 0,1,12,63..65,128,300) x {ref, SSSE3, AVX2} recomputed completely; full 256 MiB instance: first / last / random block of sampled (pass, slice) segments '
                      'with their prev/ref/old inputs; reference vs SSSE3 vs AVX2 over all 262144 blocks; randomx_init_cache (each Argon2 flag, after re-keying from another key) vs manual reference fill')
    ck.sample({k: (v if len(str(v)) < 120 else str(v)[:120]) for k, v in json.loads(lines[0]).items()})
    ck.sample(([l for l in lines if l.startswith('{"e":"same"')] or [''])[0])
    ck.assumptions += ['the 256 MiB memory is checked locally at sampled blocks and by cross-implementation equality, not recomputed entirely by TLC (about 0.15 s per block)']
    if not res['rejected']:
        shutil.rmtree(wd, ignore_errors=True)
    return ck.finish()
