"""C11 - Blake2b and the commitment conform to RFC 7693 (DESIGN 6-C11)."""
import os, json, subprocess
import vlib


def key_of(rj):
    try:
        ev = json.loads(rj['line'])
        if ev['e'] == 'oneshot':
            return 'oneshot:in=%d:out=%d:key=%d' % (ev['inlen'], ev['outlen'], ev['keylen'])
        if ev['e'] == 'stream':
            return 'stream:out=%d:key=%d:chunks=%s' % (ev['outlen'], ev['keylen'], '-'.join(str(len(c)) for c in ev['chunks'])[:40])
        if ev['e'] == 'long':
            return 'long:in=%d:out=%d' % (len(ev['msg']), ev['outlen'])
        return '%s:in=%d' % (ev['e'], len(ev.get('input', [])))
    except Exception:
        return 'trace'


def bind(ck, tag='c11', big=True):
    """binding of the real Blake2b code to the TLA+ definition (also used by C02 for the Blake2b arrows of the composition)"""
    exe = vlib.build_harness('rx_blake')
    tr = os.path.join(vlib.WORK, tag + '.ndjson')
    lines = vlib.run_harness([exe, '--seed', str(ck.seed), '--tier', ck.tier, '--big', '1' if big else '0', '--out', tr], tr, timeout=900)
    res = vlib.validate_sharded('TraceBlake', 'TraceBlake.cfg', lines, tag, shards=16, timeout=1500)
    ck.add_traces('TraceBlake', res, 'one-shot / streaming / blake2b_long / commitment calls on the real code')
    ck.reject('TraceBlake', res, key_of)
    if os.path.exists(tr):
        os.remove(tr)
    return lines


def run():
    ck = vlib.Check('C11', 'model_checking')
    # 1. exhaustive: streaming machine, all chunkings, small block
    maxlen = 17 if ck.thorough else 13
    cfg = os.path.join(vlib.WORK, 'MCBlake_%d.cfg' % maxlen)
    os.makedirs(vlib.WORK, exist_ok=True)
    open(cfg, 'w').write(open(os.path.join(vlib.SPEC, 'MCBlake.cfg')).read().replace('MaxLen = 13', 'MaxLen = %d' % maxlen))
    r = vlib.tlc('MCBlake', cfg, workers=8, timeout=600)
    ck.add_model('MCBlake', r, 'B=4, TMod=8, message lengths 0..%d, keys {none,1,4 bytes}, outlen {1,4}, all chunkings' % maxlen)
    if not r['ok']:
        ck.violation('model:MCBlake', 'streaming machine violates an invariant in the model', vlib.tlc_error_summary(r['out']))
    lines = bind(ck)
    kinds = {}
    for l in [x for x in lines if '"e": "Crash"' not in x]:
        ev = json.loads(l)
        kinds[ev['e']] = kinds.get(ev['e'], 0) + 1
    ck.cov['event_kinds'] = kinds
    for l in lines[:2] + lines[120:121]:
        ck.sample(l)
    ck.cov['evaluations'] = len(lines) + r['generated']
    ck.cov['distinct_nontrivial'] = len(set(lines)) + r['distinct']
    ck.cov['rule'] = ('model: every (length, key, outlen, chunk size) transition of the streaming machine; '
                      'trace: seeded calls, lengths around 128-byte block edges, all outlen 1..64, key lengths '
                      '0/1/31/32/63/64/random, invalid parameters; a case is one recorded call or session')
    ck.cov['rule'] += '; plus: sessions on used state objects, invalid lengths k*2^32+n, a (2^32+k)-byte message one-shot / streamed / committed'
    ck.assumptions += ['Bitwise/SequencesExt Java overrides of the CommunityModules', 'messages < 2^30 bytes (counter carry is covered in the model with TMod=8 only)']
    return ck.finish()
