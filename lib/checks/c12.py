"""C12 - AES generators and fingerprint match FIPS-197 rounds, soft and hard (DESIGN 6-C12)."""
import os, json
import vlib


def key_of(rj):
    try:
        ev = json.loads(rj['line'])
        k = ev['e']
        for f in ('kind', 'n', 'i', 'gen', 'what', 'j'):
            if f in ev:
                k += ':%s=%s' % (f, str(ev[f]).replace(' ', '_'))
        return k[:80]
    except Exception:
        return 'trace'


def bind(ck, tag='c12'):
    """binding of the real AES layer to the TLA+ definition (also used by C02 for the AES arrows of the composition)"""
    exe = vlib.build_harness('rx_aes')
    tr = os.path.join(vlib.WORK, tag + '.ndjson')
    lines = vlib.run_harness([exe, '--seed', str(ck.seed), '--tier', ck.tier, '--out', tr], tr, timeout=600)
    # fresh processes in which a different routine is the first AES call (no routine may depend on another one having run before)
    for first in ('combined', 'fill4'):
        lines += vlib.run_harness([exe, '--seed', str(ck.seed + 7), '--tier', ck.tier, '--first', first, '--out', tr], tr, timeout=600)
    res = vlib.validate_sharded('TraceAes', 'TraceAes.cfg', lines, tag, shards=16, timeout=3000, xmx='6g')
    ck.add_traces('TraceAes', res, 'soft/hard rounds, AesGenerator1R/4R, AesHash1R, combined step, T-tables, full-size chain links and soft/hard difference counts')
    ck.reject('TraceAes', res, key_of)
    if os.path.exists(tr):
        os.remove(tr)
    return lines


def run():
    ck = vlib.Check('C12', 'model_checking')
    r = vlib.tlc('MCAes', 'MCAes.cfg', workers=4, timeout=600)
    ck.add_model('MCAes', r, 'all 256 byte values: literal tables = GF(2^8) definitions, T-table round = FIPS-197 round, inverses, combined step = (hash, fill) for 1..2 blocks, constants = Blake2b of the named strings')
    if not r['ok']:
        ck.violation('model:MCAes', 'AES layer model check failed', vlib.tlc_error_summary(r['out']))
    lines = bind(ck)
    kinds = {}
    for l in [x for x in lines if '"e": "Crash"' not in x]:
        e = l[6:l.index('"', 6)]
        kinds[e] = kinds.get(e, 0) + 1
    ck.cov['event_kinds'] = kinds
    for l in lines[8:10] + [x for x in lines if x.startswith('{"e":"same"')][:2]:
        ck.sample(l)
    ck.cov['evaluations'] = len(lines) + r['generated']
    ck.cov['distinct_nontrivial'] = len(set(lines)) + r['distinct']
    ck.cov['rule'] = ('model: 256 byte values x (tables, T-view, inverses, combined step); trace: one event per call of the real '
                      'code on seeded/boundary (state,key) pairs and buffers of 0..8 (quick) / 0..64 (thorough) blocks recomputed '
                      'completely by the spec, plus full-size (2 MiB, 3200 B) runs checked by local chain links and soft/hard difference counts')
    ck.cov['rule'] += '; plus: canaries behind every output, zero-size requests, calls during static initialisation, fresh processes with another first AES call, 2^31- and (2^32+k)-byte inputs'
    ck.assumptions += ['hardware AES path = AESENC/AESDEC of this CPU', 'full-size buffers: only sampled links are recomputed in TLA+ (quick); thorough recomputes a whole 2 MiB fingerprint']
    return ck.finish()
