"""C13 - hashing neither depends on nor disturbs the caller's FP environment (DESIGN 6-C13)."""
import os, json, shutil
import vlib, apiscen


def words(thorough):
    ws = []
    maskpats = [0x3F, 0x00, 0x1F, 0x20] if thorough else [0x3F, 0x00, 0x1F]   # all masked, none masked, only inexact unmasked, ...
    flagpats = [0x00, 0x3F, 0x20] if thorough else [0x00, 0x3F]
    for rc in range(4):
        for ftz in (0, 1):
            for daz in (0, 1):
                for m in maskpats:
                    for f in flagpats:
                        ws.append((rc << 13) | (ftz << 15) | (daz << 6) | (m << 7) | f)
    return ws


def run():
    ck = vlib.Check('C13', 'model_checking')
    wd = os.path.join(vlib.WORK, 'c13')
    shutil.rmtree(wd, ignore_errors=True)
    os.makedirs(wd)
    r = vlib.tlc('RxFp', 'MCFp.cfg', workers=8, timeout=900)
    ck.add_model('MCFp', r, 'all 256 abstract entry words x single/next/last drivers x every CFROUND outcome and flag raise per program')
    if not r['ok']:
        ck.violation('model:RxFp', 'FP-word model violates Restored/ProgramsSeeDefault', vlib.tlc_error_summary(r['out'], 60))
    ws = words(ck.thorough)
    ck.rng.shuffle(ws)
    cfgs = [('IL', 0, 0), ('IL', 1, 0), ('CL', 0, 0), ('CL', 1, 0), ('CL', 0, 1), ('CL', 1, 1)]
    if ck.thorough:
        cfgs += [('IF', 0, 0), ('CF', 1, 0), ('CF', 0, 1)]
    nscen = 32 if ck.thorough else 16
    scens = []
    A = lambda **k: k
    for i in range(nscen):
        kind, hard, secure = cfgs[i % len(cfgs)]
        v2 = (i // len(cfgs)) % 2 == 1
        mine = ws[i::nscen]
        full = kind in ('IF', 'CF')
        if full:
            mine = mine[:6]
        elif kind == 'IL':
            mine = mine[:10 if not ck.thorough else 30]
        h = [A(a='AllocCache', c='c1', s='s1', m='m1'), A(a='InitCache', c='c1', k='K1')]
        if full:
            h += [A(a='AllocDataset', d='d1', m='dm1'), A(a='InitDatasetChunk', d='d1', c='c1', j=1), A(a='InitDatasetChunk', d='d1', c='c1', j=2),
                  A(a='CreateVm', v='v1', kind=kind, c='none', d='d1', v2=v2)]
        else:
            # the VM is constructed under a non-default word of the caller (exceptions unmasked, other rounding mode): later hashes entered
            # with any word must not be affected by what the thread looked like at construction time
            h += [A(a='SetCsr', csr=[0x0000, 0x7F80, 0x1F00, 0x9FC0 & ~0x1000][i % 4]), A(a='CreateVm', v='v1', kind=kind, c='c1', d='none', v2=v2), A(a='SetCsr', csr=0x1F80),
                  A(a='Hash', v='v1', key='K1', **{'in': 'I1'})]
        for j, w in enumerate(mine):
            inp = 'I1' if j % 2 == 0 else 'I2'
            if j % 4 == 3 and not full:
                # pipeline: the caller may change its own word between the calls
                w2 = mine[(j + 1) % len(mine)]
                h += [A(a='SetCsr', csr=w), A(a='HashFirst', v='v1', **{'in': inp}), A(a='SetCsr', csr=w2),
                      A(a='HashNext', v='v1', key='K1', pin=inp, **{'in': 'I2'}), A(a='SetCsr', csr=w),
                      A(a='HashLast', v='v1', key='K1', pin='I2')]
            else:
                h += [A(a='SetCsr', csr=w), A(a='Hash', v='v1', key='K1', **{'in': inp})]
        ks, iset = i % 3, i % len(apiscen.INPUTSETS)
        opts = {'hard': hard, 'secure': secure, 'cachejit': i % 2}
        scens.append({'ks': ks, 'iset': iset, 'full': full, 'text': apiscen.to_text(h, opts), 'cfg': (kind, hard, secure, v2)})
    # pipelines right after a hash whose programs contain no CFROUND (apiscen.NC_INPUTS): the words in force at hash_next / hash_last have
    # another rounding mode; the reset before program 1 must not be conditional on what the previous programs did
    for kind in ('IL', 'CL'):
        h = [A(a='AllocCache', c='c1', s='s1', m='m1'), A(a='InitCache', c='c1', k='K1'), A(a='CreateVm', v='v1', kind=kind, c='c1', d='none', v2=False),
             A(a='Hash', v='v1', key='K1', **{'in': 'I1'})]
        for w, w2, w3 in ((0x1F80, 0x3F80, 0x5F80), (0x7F80, 0x5F80, 0x3F80), (0x1F80, 0x7F80, 0x7F80)):
            h += [A(a='SetCsr', csr=w), A(a='HashFirst', v='v1', **{'in': 'I1'}), A(a='SetCsr', csr=w2),
                  A(a='HashNext', v='v1', key='K1', pin='I1', **{'in': 'I1'}), A(a='SetCsr', csr=w3),
                  A(a='HashLast', v='v1', key='K1', pin='I1'), A(a='SetCsr', csr=w2), A(a='Hash', v='v1', key='K1', **{'in': 'I1'})]
        scens.append({'ks': 0, 'iset': apiscen.NC_ISET, 'full': False, 'text': apiscen.to_text(h, {'hard': 0, 'secure': 0, 'cachejit': 1 if kind == 'CL' else 0}), 'cfg': (kind, 0, 0, False)})
    combos = sorted(set((s['ks'], s['iset']) for s in scens))
    fullc = set((s['ks'], s['iset']) for s in scens if s['full'])
    tabs = apiscen.fresh_tables(combos, lambda c: ['IL', 'CL', 'IF', 'CF'] if c in fullc else ['IL', 'CL'], os.path.join(wd, 'fresh'))
    for s in scens:
        s['data'], s['fresh'] = tabs[(s['ks'], s['iset'])]
    traces = apiscen.replay(scens, os.path.join(wd, 'replay'), watchdog=900)
    lines, group = [], []
    for i, t in enumerate(traces):
        lines += ['{"e":"Reset"}'] + t
        group += [i] * (len(t) + 1)
    res = vlib.validate_sharded('TraceApi', 'TraceApi.cfg', lines, 'c13', shards=16, timeout=1500, group=group, independent=False)
    # conformance with the model's internal decisions/state (skip & rebind decisions, pointers, version copies, reset word):
    # a mismatch is model drift, reported but not a violation of the property
    res2 = vlib.validate_sharded('TraceApi', 'TraceApiModel.cfg', lines, 'c13m', shards=16, timeout=1500, group=group, independent=False)
    ck.cov['parts']['TraceApiModel'] = {'trace_events_accepted': res2['accepted'], 'trace_events_total': res2['total'], 'model_drift': [x['line'][:240] for x in res2['rejected']][:5]}
    ck.cov['states'] += res2['states']
    ck.cov['transitions'] += res2['transitions']
    if res2['rejected'] and not res['rejected']:
        vlib.log('[c13] MODEL-DRIFT: %s' % res2['rejected'][0]['line'][:300])
    ck.add_traces('TraceApi', res, 'hash calls entered with every rounding/FTZ/DAZ combination, several mask and flag patterns, all VM configurations')
    for rj in res['rejected']:
        try:
            ev = json.loads(rj['line'])
        except Exception:
            ev = {}
        shard_lines = [l for l in open(rj['file']).read().splitlines() if l]
        upto = shard_lines[:rj['line_no']]
        cfgline = [l for l in upto if l.startswith('{"e":"CreateVm"')]
        flags = json.loads(cfgline[-1]).get('flags') if cfgline else '?'
        ck.violation('fp:%s:flags=%s:csrBefore=%s' % (ev.get('e', '?'), flags, ev.get('csrBefore', ev.get('sig', '?'))),
                     'hash call rejected: %s' % rj['line'][:400], {'trace_tail': upto[-6:], 'tlc': rj['tlc']})
    # measured coverage: entry words, rounding mode left by the last program
    entry, lastrc, nh = set(), {}, 0
    for l in lines:
        if l.startswith('{"e":"Hash"') or l.startswith('{"e":"HashNext"') or l.startswith('{"e":"HashLast"'):
            ev = json.loads(l)
            nh += 1
            entry.add(ev['csrBefore'])
            if ev.get('csrProg'):
                k = (ev['csrProg'][-1] >> 13) & 3
                lastrc[k] = lastrc.get(k, 0) + 1
    ck.cov['hash_calls'] = nh
    ck.cov['distinct_entry_words'] = len(entry)
    ck.cov['rounding_mode_left_by_last_program'] = {str(k): v for k, v in sorted(lastrc.items())}
    ck.cov['vm_configurations'] = sorted(set('%s hard=%d secure=%d v2=%d' % s['cfg'] for s in scens))
    ck.sample({'scenario': scens[0]['text'].splitlines()[:8]})
    hs = [l for l in lines if l.startswith('{"e":"Hash"')]
    if hs:
        ck.sample(hs[0])
    ck.cov['evaluations'] = nh + r['generated']
    ck.cov['distinct_nontrivial'] = len(entry) + r['distinct']
    ck.cov['rule'] = 'entry MXCSR = rc(4) x FTZ(2) x DAZ(2) x mask patterns x flag patterns, spread over VM configurations and versions; single calls and first/next/last pipelines with the caller changing its word between calls'
    ck.cov['rule'] += '; plus: x87 control word around every hash, VMs constructed under non-default words'
    ck.assumptions += ['x86-64 MXCSR only (the fenv variant is exercised by C17)', 'harness code between calls runs under the default word; the word the library left is reinstated right before the next call']
    if not res['rejected']:
        shutil.rmtree(wd, ignore_errors=True)
    return ck.finish()
