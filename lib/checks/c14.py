"""C14 - concurrent hashing and dataset initialisation are race-free (DESIGN 6-C14)."""
import os, json, re, shutil, subprocess, glob
from concurrent.futures import ThreadPoolExecutor
import vlib, apiscen

JIT, HARD, FULL, SECURE = 8, 2, 4, 16


def symbols(so):
    rc, out = vlib.sh(['nm', '-S', '-C', '--defined-only', so])
    syms = []
    for l in out.splitlines():
        m = re.match(r'^([0-9a-f]+) ([0-9a-f]+) (\w) (.+)$', l)
        if m and m.group(3) in 'bBdD':
            syms.append((int(m.group(1), 16), int(m.group(2), 16), m.group(4)))
    return syms


def resolve(syms, vaddr, n):
    names = set()
    for a, sz, name in syms:
        if a < vaddr + n and vaddr < a + max(sz, 1):
            names.add(name)
    return sorted(names) or ['unknown@%x' % vaddr]


def conformance_scenario(i, hards=(0, 1), portable=False):
    """every kind of public call, alone, with the shared cache write-protected while VMs use it"""
    L = ['AllocCache c1 s1 m1 jit=%d argon=%d' % (0 if portable else i % 2, 0 if portable else i % 3), 'InitCache c1 K1', 'InitCache c1 K2', 'InitCache c1 K1',
         'AllocDataset d1 dm1 nchunks=1', 'InitDatasetReal d1 c1 %d %d' % (1000 + i, 37 + i), 'InitDatasetReal d1 c1 5 2', 'Protect c1 ro']
    n = 0
    for kind in (('IL',) if portable else ('IL', 'CL')):
        for hard in hards:
            for secure in ((0, 1) if kind == 'CL' else (0,)):
                n += 1
                v2 = (n + i) % 2
                L += ['CreateVm v1 %s c1 none v2=%d hard=%d secure=%d' % (kind, v2, hard, secure), 'Hash v1 I1 key=K1', 'SetV2 v1 %d' % (1 - v2),
                      'HashFirst v1 I2', 'HashNext v1 I1 key=K1 pin=I2', 'HashLast v1 key=K1 pin=I1', 'SetCache v1 c1', 'DestroyVm v1']
    L += ['InitDatasetReal d1 c1 %d %d' % (200000 + 4 * i, 64), 'Protect c1 rw']
    # full-memory VMs over the (lazily filled) dataset
    L += ['InitDatasetChunk d1 c1 1']
    for kind in (('IF',) if portable else ('IF', 'CF')):
        L += ['CreateVm v2 %s none d1 v2=%d hard=%d secure=%d' % (kind, i % 2, ((i + 1) % 2) if 1 in hards else 0, 1 if kind == 'CF' else 0), 'Hash v2 I1 key=K1', 'SetDataset v2 d1', 'DestroyVm v2']
    L += ['ReleaseDataset d1', 'ReleaseCache c1']
    return '\n'.join(L) + '\n'


OPMAP = {'AllocCache': 'alloc_cache', 'InitCache': 'init_cache', 'ReleaseCache': 'release_cache', 'CreateVm': 'create_vm', 'Hash': 'hash',
         'HashFirst': 'hash', 'HashNext': 'hash', 'HashLast': 'hash', 'SetCache': 'set_cache', 'DestroyVm': 'destroy_vm', 'InitDatasetReal': 'init_dataset',
         'SetV2': 'set_cache', 'SetDataset': 'set_cache', 'AllocDataset': 'alloc_cache', 'ReleaseDataset': 'release_cache'}


def tsan_races(logprefix):
    races = []
    for f in glob.glob(logprefix + '.*'):
        txt = open(f).read()
        for blk in txt.split('=================='):
            if 'WARNING: ThreadSanitizer' not in blk:
                continue
            kind = re.search(r'WARNING: ThreadSanitizer: ([^\(]+)', blk).group(1).strip()
            g = re.search(r"Location is global '([^']+)'", blk)
            frames = re.findall(r'#\d+ (\S+?)[\(<\s].*?/src/([\w/\.]+):(\d+)', blk)
            fr = [x for x in re.findall(r'#\d+ ([^\n]*?) (/\S*?/src/[\w/\.]+:\d+)', blk)]
            sites = []
            for fn, loc in fr:
                nm = fn.split('(')[0].strip()
                if nm not in sites:
                    sites.append(nm)
            where = ('global=' + g.group(1)) if g else ('site=' + '|'.join(sites[:2]))
            races.append({'e': 'race', 'kind': kind, 'where': where, 'report': blk.strip()[:1500]})
    return races

def portable_footprint(ck, wd, n=1):
    """per-call global-write footprints of the PORTABLE build (used by C17: the generic fallbacks must not keep process-wide state)"""
    os.makedirs(wd, exist_ok=True)
    exe_pso = vlib.build_harness('rx_api', variant='portable', extra=['-fno-access-control'], shared=True)
    psyms = symbols(os.path.join(os.path.dirname(exe_pso), 'librxverif.so'))
    tabs = apiscen.fresh_tables([(0, 0)], ['IL', 'CL'], os.path.join(wd, 'pfresh'))
    lines = []
    for i in range(n):
        scn = os.path.join(wd, 'pfoot%d.scn' % i)
        open(scn, 'w').write(conformance_scenario(i + ck.seed, hards=(0,), portable=True))
        outp = os.path.join(wd, 'pfoot%d.ndjson' % i)
        vlib.sh([exe_pso, '--scenario', scn, '--data', tabs[(0, 0)][0], '--fresh', tabs[(0, 0)][1], '--out', outp, '--globals', '1', '--watchdog', '900'], timeout=2400, check=False)
        vm = {}
        for l in open(outp):
            if not l.strip():
                continue
            ev = json.loads(l)
            if ev['e'] in ('Crash', 'Timeout', 'Exception'):
                lines.append(json.dumps(ev))
                continue
            if ev['e'] == 'CreateVm':
                vm[ev['v']] = ev['flags']
            if ev['e'] not in OPMAP:
                continue
            fl = vm.get(ev.get('v'), 0)
            gw = []
            for a, nb in ev.get('gw', []):
                gw += resolve(psyms, a, nb)
            lines.append(json.dumps({'e': 'call', 'op': OPMAP[ev['e']], 'api': ev['e'], 'light': not (fl & FULL), 'hardAes': False, 'gw': sorted(set(gw)), 'build': 'portable'}))
    res = vlib.validate_sharded('TraceConc', 'TraceConc.cfg', lines, 'pfoot', shards=4, timeout=900)
    ck.add_traces('TraceConc(portable footprint)', res, 'every public call alone on the portable build, library as shared object, writable segments diffed: no call writes a library global')
    for rj in res['rejected']:
        try:
            ev = json.loads(rj['line'])
        except Exception:
            ev = {}
        ck.violation('globalwrite:%s:%s:portable' % (ev.get('api', ev.get('e')), ','.join(ev.get('gw', []))), 'portable build: call %s writes library global(s) %s' % (ev.get('api'), ev.get('gw')), {'event': ev, 'tlc': rj['tlc']})
    return res


def run():
    ck = vlib.Check('C14', 'model_checking')
    wd = os.path.join(vlib.WORK, 'c14')
    shutil.rmtree(wd, ignore_errors=True)
    os.makedirs(wd)
    ck.sensitivity('RxConc', 'MCConc_unfixed.cfg', 'creating a HARD_AES VM writes the process-wide aesDummy (the code before the repair 201f661)')
    r = vlib.tlc('RxConc', 'MCConc.cfg', workers=8, timeout=900)
    ck.add_model('MCConc', r, '3 threads, every assignment of scripts (light VM, full VM, own cache, dataset range initialiser over 3 ranges; with/without HARD_AES), all interleavings of Begin/End')
    if not r['ok']:
        ck.violation('model:RxConc', 'footprint table admits a race', vlib.tlc_error_summary(r['out'], 50))
    lines = []
    # (b) footprint conformance, deterministic: every call alone, library as shared object, globals diffed
    exe_so = vlib.build_harness('rx_api', extra=['-fno-access-control'], shared=True)
    so = os.path.join(os.path.dirname(exe_so), 'librxverif.so')
    syms = symbols(so)
    tabs = apiscen.fresh_tables([(0, 0)], ['IL', 'CL', 'IF', 'CF'], os.path.join(wd, 'fresh'))
    nconf = 6 if ck.thorough else 3

    def conf(i):
        scn = os.path.join(wd, 'conf%d.scn' % i)
        open(scn, 'w').write(conformance_scenario(i + ck.seed))
        outp = os.path.join(wd, 'conf%d.ndjson' % i)
        vlib.sh([exe_so, '--scenario', scn, '--data', tabs[(0, 0)][0], '--fresh', tabs[(0, 0)][1], '--out', outp, '--globals', '1', '--watchdog', '600'], timeout=1800, check=False)
        return [json.loads(l) for l in open(outp) if l.strip()]
    # the same for the PORTABLE build of the tree (generic vector code, fenv rounding, software AES only): its fallbacks must not keep
    # process-wide state either
    exe_pso = vlib.build_harness('rx_api', variant='portable', extra=['-fno-access-control'], shared=True)
    psyms = symbols(os.path.join(os.path.dirname(exe_pso), 'librxverif.so'))

    def pconf(i):
        scn = os.path.join(wd, 'pconf%d.scn' % i)
        open(scn, 'w').write(conformance_scenario(i + ck.seed, hards=(0,), portable=True))
        outp = os.path.join(wd, 'pconf%d.ndjson' % i)
        vlib.sh([exe_pso, '--scenario', scn, '--data', tabs[(0, 0)][0], '--fresh', tabs[(0, 0)][1], '--out', outp, '--globals', '1', '--watchdog', '900'], timeout=2400, check=False)
        return [json.loads(l) for l in open(outp) if l.strip()]
    # (c) schedules under ThreadSanitizer; sequential references from the uninstrumented build with the same seed
    exe_t = vlib.build_harness('rx_conc', variant='tsan')
    exe_n = vlib.build_harness('rx_conc', variant='verif')
    runs = [('lightvms', ['--threads', '4', '--rounds', '1', '--hashes', '1', '--interp', '1']),
            ('dsinit', ['--threads', '4', '--jit', '0', '--window', '1500']),
            ('dsinit', ['--threads', '6', '--jit', '1', '--window', '30000']),
            ('dsinit', ['--threads', '3', '--jit', '1', '--window', '4001', '--atend', '1'])]
    if ck.thorough:
        runs += [('lightvms', ['--threads', '8', '--rounds', '2', '--hashes', '2', '--interp', '2']),
                 ('owncache', ['--threads', '3']), ('dsinit', ['--threads', '16', '--jit', '1', '--window', '400000'])]

    def conc(idx):
        mode, extra = runs[idx]
        seed = str(ck.seed + idx)
        logp = os.path.join(wd, 'tsan%d' % idx)
        outp = os.path.join(wd, 'par%d.ndjson' % idx)
        env = {'TSAN_OPTIONS': 'log_path=%s exitcode=0 halt_on_error=0 report_signal_unsafe=0 history_size=4' % logp}
        rc, out = vlib.sh([exe_t, '--mode', mode, '--seed', seed, '--phase', 'par', '--out', outp] + extra, env=env, timeout=3000, check=False)
        evs = [json.loads(l) for l in open(outp) if l.strip()] if os.path.exists(outp) else []
        if rc != 0:
            evs.append({'e': 'Crash', 'during': 'rx_conc ' + mode, 'rc': rc, 'msg': out[-300:]})
        if mode != 'dsinit':
            outs = os.path.join(wd, 'seq%d.ndjson' % idx)
            vlib.sh([exe_n, '--mode', mode, '--seed', seed, '--phase', 'seq', '--out', outs] + extra, timeout=3000)
            seq = {e['t']: e['seq'] for e in (json.loads(l) for l in open(outs) if l.strip())}
            for e in evs:
                if e.get('e') == 'thread':
                    e['seq'] = seq.get(e['t'], [])
        return evs + tsan_races(logp)
    with ThreadPoolExecutor(16) as ex:
        fc = [ex.submit(conf, i) for i in range(nconf)]
        fp = [ex.submit(pconf, i) for i in range(2 if ck.thorough else 1)]
        ft = [ex.submit(conc, i) for i in range(len(runs))]
        confs = [f.result() for f in fc]
        pconfs = [f.result() for f in fp]
        concs = [f.result() for f in ft]
    vm = {}
    ncalls = 0
    for evs, sy, build in [(e, syms, 'default') for e in confs] + [(e, psyms, 'portable') for e in pconfs]:
        for ev in evs:
            e = ev['e']
            if e in ('Crash', 'Timeout', 'Exception'):
                lines.append(json.dumps(ev))
                continue
            if e == 'CreateVm':
                vm[ev['v']] = ev['flags']
            if e not in OPMAP:
                continue
            fl = vm.get(ev.get('v'), 0)
            gw = []
            for a, n in ev.get('gw', []):
                gw += resolve(sy, a, n)
            ncalls += 1
            lines.append(json.dumps({'e': 'call', 'op': OPMAP[e], 'api': e, 'light': not (fl & FULL), 'hardAes': bool(fl & HARD), 'gw': sorted(set(gw)), 'build': build}))
    nraces = 0
    for evs in concs:
        for ev in evs:
            if ev['e'] == 'race':
                nraces += 1
            lines.append(json.dumps(ev))
    res = vlib.validate_sharded('TraceConc', 'TraceConc.cfg', lines, 'c14', shards=8, timeout=900)
    ck.add_traces('TraceConc', res, 'per-call global-write footprints (library as shared object), concurrent thread results vs sequential, concurrent dataset-range initialisation, ThreadSanitizer reports')
    for rj in res['rejected']:
        try:
            ev = json.loads(rj['line'])
        except Exception:
            ev = {}
        if ev.get('e') == 'race':
            key = 'race:' + ev['where']
            text = 'ThreadSanitizer %s at %s' % (ev['kind'], ev['where'])
        elif ev.get('e') == 'call':
            key = 'globalwrite:%s:%s%s' % (ev['api'], ','.join(ev['gw']), ':portable' if ev.get('build') == 'portable' else '')
            text = 'call %s writes library global(s) %s outside its footprint' % (ev['api'], ev['gw'])
        else:
            key = 'conc:%s:%s' % (ev.get('e'), ev.get('mode', ev.get('during', '')))
            text = 'concurrent result rejected: %s' % rj['line'][:300]
        ck.violation(key, text, {'event': ev, 'tlc': rj['tlc']})
    ck.cov['calls_with_observed_footprint'] = ncalls
    ck.cov['tsan_reports'] = nraces
    ck.cov['concurrent_runs'] = ['%s %s' % (m, ' '.join(x)) for m, x in runs]
    ck.cov['evaluations'] = len(lines) + r['generated']
    ck.cov['distinct_nontrivial'] = len(set(lines)) + r['distinct']
    ck.cov['rule'] = ('model: all interleavings of 3 scripted threads; code: every public call kind x VM flag set executed alone with the writable segments of the library '
                      'snapshotted and compared, shared cache write-protected during VM use; seeded concurrent schedules under ThreadSanitizer with results compared with sequential ones')
    for l in lines[:2] + [x for x in lines if x.startswith('{"e": "dsinit"') or x.startswith('{"e": "thread"')][:2]:
        ck.sample(l)
    ck.assumptions += ['ThreadSanitizer does not see JIT-generated or hand-written assembly code (false negatives only); those are covered by the footprint diff and write protection',
                       'happens-before = program order + thread create/join of the harness']
    if not res['rejected']:
        shutil.rmtree(wd, ignore_errors=True)
    return ck.finish()
