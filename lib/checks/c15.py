"""C15 - lifecycle is leak- and crash-free, also when allocations fail (DESIGN 6-C15)."""
import os, json, re, shutil
import vlib, apiscen


def enumerate_from_model():
    """(op, jit, large, longKey, failAt) tuples = labels of the Create edges TLC explores from the initial state"""
    dot = os.path.join(vlib.WORK, 'c15', 'alloc.dot')
    r = vlib.tlc('RxAlloc', 'MCAlloc1.cfg', workers=1, timeout=300, extra=['-dump', 'dot,actionlabels', dot])
    cases = set()
    for m in re.finditer(r'label="Create\(\\"o1\\",\\"(\w+)\\",\[([^\]]*)\],(\d+)\)"', open(dot).read()):
        f = dict(re.findall(r'(\w+) \|-> (TRUE|FALSE)', m.group(2)))
        cases.add((m.group(1), f.get('jit') == 'TRUE', f.get('large') == 'TRUE', f.get('key') == 'TRUE', int(m.group(3))))
    return r, sorted(cases)


def run():
    ck = vlib.Check('C15', 'fault_enumeration')
    wd = os.path.join(vlib.WORK, 'c15')
    shutil.rmtree(wd, ignore_errors=True)
    os.makedirs(wd)
    for cfg, what in (('MCAlloc.cfg', 'no huge pages'), ('MCAllocHuge.cfg', 'huge pages granted')):
        r = vlib.tlc('RxAlloc', cfg, workers=4, timeout=600)
        ck.add_model(cfg[:-4], r, '2 objects, every creating call x {jit} x {large} x failing step 0..4, create/destroy cycles; ' + what)
        if not r['ok']:
            ck.violation('model:' + cfg, 'allocation model violates an invariant', vlib.tlc_error_summary(r['out'], 50))
    ck.sensitivity('RxAlloc', 'MCAlloc_earlyout.cfg', 'deallocCache returns early when no memory is set (the JIT compiler of a half-built cache is never deleted)')
    r1, cases = enumerate_from_model()
    ck.add_model('MCAlloc1(enumeration)', r1, '1 object; edge labels give the (call, flags, k) space to replay')
    if len(cases) < 20:
        raise vlib.Infra('fault enumeration from the model is too small: %d' % len(cases))
    scens = []
    A = lambda **k: k
    i = 0
    for (op, jit, large, longkey, k) in cases:
        variants = [0]
        if op == 'create_vm':
            variants = [0, 1] if not ck.thorough else [0, 1, 2, 3]      # light / full memory (+ hard AES / secure rotation)
        for var in variants:
            i += 1
            full = op == 'create_vm' and var % 2 == 1
            hard, secure = (i % 2), ((i // 2) % 2 if jit else 0)
            pre, call, post = [], [], []
            lg = 1 if large else 0
            if op == 'alloc_cache':
                call = ['AllocCache c1 any any jit=%d large=%d argon=%d' % (jit, lg, i % 3)]
                post = ['InitCache c1 K1', 'CreateVm v1 %s c1 none v2=%d hard=%d secure=%d' % ('CL' if i % 2 else 'IL', i % 2, hard, 0), 'Hash v1 I1 key=K1',
                        'DestroyVm v1', 'ReleaseCache c1']
            elif op == 'alloc_dataset':
                call = ['AllocDataset d1 dm1 large=%d' % lg]
                post = ['ReleaseDataset d1']
            else:
                kind = ('CF' if jit else 'IF') if full else ('CL' if jit else 'IL')
                pre = ['AllocCache c1 s1 m1 jit=%d' % (i % 2), 'InitCache c1 K1']      # (named slots: a released cache becomes inaccessible memory)
                if full:
                    pre += ['AllocDataset d1 dm1 nchunks=1', 'InitDatasetChunk d1 c1 1']
                call = ['CreateVm v1 %s %s %s v2=%d hard=%d secure=%d large=%d' % (kind, 'none' if (full and not longkey) else 'c1', 'd1' if full else 'none', i % 2, hard, secure, lg)]      # (a full-memory VM may be given the cache as well: then it copies its key)
                # (both release orders are legal: the cache / dataset may go before the VM that was bound to it)
                if i % 2:
                    post = (['Hash v1 I1 key=K1'] if (not full or ck.thorough) else []) + (['ReleaseDataset d1'] if full else []) + ['ReleaseCache c1', 'DestroyVm v1']
                else:
                    post = (['Hash v1 I1 key=K1'] if (not full or ck.thorough) else []) + ['DestroyVm v1'] + (['ReleaseDataset d1'] if full else []) + ['ReleaseCache c1']
            text = pre + ['FailAt %d' % k] + call
            # the failed call is followed by a fault-free one that must succeed (unless huge pages are required), and a clean teardown
            if large:
                if op == 'create_vm':
                    text += (['ReleaseDataset d1'] if full else []) + ['ReleaseCache c1']
            else:
                if k > 0:
                    text += call
                text += post
                # second cycle: repeated create/use/destroy does not grow the process
                text += pre + call + post
            scens.append({'text': '\n'.join(text) + '\n', 'case': (op, jit, large, k, var), 'ks': 5 if longkey else 0})
    # with an (emulated) huge-page pool: large-page requests are granted while the pool lasts. (1) every large-page case again with
    # a pool that grants everything; (2) a pool too small for a cache but large enough for a scratchpad: several refused cache
    # allocations in a row must not change what a later request that fits gets
    for (op, jit, large, longkey, k) in cases:
        if not large:
            continue
        i += 1
        if op == 'alloc_cache':
            call = ['AllocCache c1 any any jit=%d large=1 argon=%d' % (jit, i % 3)]
            post = ['InitCache c1 K1', 'CreateVm v1 %s c1 none v2=%d hard=%d secure=0 large=1' % ('CL' if i % 2 else 'IL', i % 2, i % 2), 'Hash v1 I1 key=K1', 'DestroyVm v1', 'ReleaseCache c1']
            pre = []
        elif op == 'alloc_dataset':
            call, post, pre = ['AllocDataset d1 dm1 large=1'], ['ReleaseDataset d1'], []
        else:
            pre = ['AllocCache c1 s1 m1 jit=%d' % (i % 2), 'InitCache c1 K1']      # (named slots: a released cache becomes inaccessible memory)
            call = ['CreateVm v1 %s c1 none v2=%d hard=%d secure=%d large=1' % ('CL' if jit else 'IL', i % 2, i % 2, (i // 2) % 2 if jit else 0)]
            post = ['Hash v1 I1 key=K1', 'DestroyVm v1', 'ReleaseCache c1']
        text = ['HugePool 4096'] + pre + ['FailAt %d' % k] + call + (call if k > 0 else []) + post
        scens.append({'text': '\n'.join(text) + '\n', 'case': (op, jit, True, k, 'hugepool'), 'ks': 5 if longkey else 0, 'huge': True})
    for nfail in (4, 6):
        text = ['HugePool 16', 'AllocCache c1 any any jit=1', 'InitCache c1 K1'] + ['AllocCache c2 any any jit=%d large=1' % (q % 2) for q in range(nfail)] + \
               ['CreateVm v1 CL c1 none v2=0 hard=1 secure=1 large=1', 'Hash v1 I1 key=K1', 'DestroyVm v1', 'CreateVm v1 IL c1 none v2=1 hard=0 secure=0 large=1', 'Hash v1 I2 key=K1', 'DestroyVm v1', 'ReleaseCache c1']
        scens.append({'text': '\n'.join(text) + '\n', 'case': ('streak', False, True, nfail, 'hugepool'), 'ks': 0, 'huge': True})
    # the kernel may place a mapping at a 2 MiB-aligned address (about 1 in 512): forced here, create / use / destroy cycles must still give
    # back every mapped byte
    for jit in (0, 1):
        text = ['AlignMaps 1', 'AllocCache c1 any any jit=%d' % jit, 'InitCache c1 K1', 'CreateVm v1 %s c1 none v2=0 hard=0 secure=%d' % ('CL' if jit else 'IL', jit), 'Hash v1 I1 key=K1',
                'DestroyVm v1', 'CreateVm v1 CL c1 none v2=1 hard=1 secure=0', 'Hash v1 I2 key=K1', 'DestroyVm v1', 'ReleaseCache c1',
                'AllocCache c1 any any jit=1', 'InitCache c1 K1', 'ReleaseCache c1']
        scens.append({'text': '\n'.join(text) + '\n', 'case': ('aligned', bool(jit), False, 0, 'alignmaps'), 'ks': 0, 'huge': True})
    # ks 5: a 64-byte key, so that copying the key string into the VM is a heap request of its own (small-string buffer: 15 bytes)
    tabs = apiscen.fresh_tables([(0, 0), (5, 0)], ['IL', 'CL', 'IF', 'CF'] if ck.thorough else ['IL', 'CL'], os.path.join(wd, 'fresh'))
    for s in scens:
        s['data'], s['fresh'] = tabs[(s['ks'], 0)]
    traces = apiscen.replay(scens, os.path.join(wd, 'replay'), os_log=True, watchdog=600)
    lines, group = [], []
    for j, t in enumerate(traces):
        # the OS event list of long calls is irrelevant for the model: keep requests/frees of creating and releasing calls only
        slim = []
        for l in t:
            ev = json.loads(l)
            if ev['e'] not in ('AllocCache', 'AllocDataset', 'CreateVm') and 'os' in ev:
                ev['os'] = [o for o in ev['os'] if o['k'] in ('a', 'M')][:4]
            for f in ('csrProg',):
                ev.pop(f, None)
            slim.append(json.dumps(ev))
        lines += ['{"e":"Reset"}'] + slim
        group += [j] * (len(slim) + 1)
    res = vlib.validate_sharded('TraceAlloc', 'TraceAlloc.cfg', lines, 'c15', shards=16, timeout=1500, group=group, independent=False)
    ck.add_traces('TraceAlloc', res, 'creating calls with the k-th request failing, followed by fault-free reuse and teardown; request sequences, return values, live counters')
    for rj in res['rejected']:
        shard_lines = [l for l in open(rj['file']).read().splitlines() if l]
        upto = shard_lines[:rj['line_no']]
        try:
            ev = json.loads(rj['line'])
        except Exception:
            ev = {}
        ck.violation('alloc:%s:flags=%s:failAt=%s' % (ev.get('e', '?'), ev.get('flags', ev.get('during', '?')), ev.get('failAt', '?')),
                     'call rejected by the allocation model: %s' % rj['line'][:500], {'trace_tail': upto[-5:], 'tlc': rj['tlc']})
    # (the step model is instantiated without huge pages: the emulated-pool scenarios are validated at the property level only)
    keep = [j for j, sc in enumerate(scens) if not sc.get('huge')]
    mlines = [l for l, g in zip(lines, group) if g in set(keep)]
    mgroup = [g for g in group if g in set(keep)]
    res2 = vlib.validate_sharded('TraceAlloc', 'TraceAllocModel.cfg', mlines, 'c15m', shards=16, timeout=1500, group=mgroup, independent=False)
    ck.cov['parts']['TraceAllocModel'] = {'trace_events_accepted': res2['accepted'], 'trace_events_total': res2['total'], 'model_drift': [x['line'][:200] for x in res2['rejected']][:5]}
    ck.cov['states'] += res2['states']
    ck.cov['transitions'] += res2['transitions']
    if res2['rejected'] and not res['rejected']:
        vlib.log('[c15] MODEL-DRIFT: request sequence differs from RxAlloc!Steps: %s' % res2['rejected'][0]['line'][:300])
    fired = sum(1 for l in lines if '"faultFired": true' in l)
    ck.cov['calls_returning_null'] = sum(1 for l in lines if '"ok": false' in l)
    ck.cov['evaluations'] = len(scens)
    ck.cov['distinct_nontrivial'] = len(set(s['case'] for s in scens if s['case'][3] > 0 or s['case'][2]))
    ck.cov['faults_fired'] = fired
    ck.cov['rule'] = ('(creating call, {jit}, {large}, k) enumerated by TLC from RxAlloc (edge labels of the state graph), create_vm additionally in light and full-memory form, '
                      'hard-AES/secure rotated; non-trivial = a request actually fails (injected k>0 or large pages refused by the OS)')
    ck.cov['rule'] += '; plus: every large-page case with an emulated huge-page pool, refusal streaks, aligned placement of mappings, 64-byte key (key copy request), both release orders'
    ck.cov['exhaustive'] = True
    ck.sample({'case': list(scens[5]['case']), 'scenario': scens[5]['text'].splitlines()})
    cr = [l for l in lines if l.startswith('{"e": "CreateVm"') and '"faultFired": true' in l]
    if fired < 10:
        raise vlib.Infra('fault injection did not fire (%d): the harness interposers are not in effect' % fired)
    if cr:
        ck.sample(cr[0])
    ck.assumptions += ['large pages are never granted in this sandbox, so the success path of LARGE_PAGES objects is covered by the model only',
                       'requests are attributed to a call when issued between its entry and return on the calling thread']
    if not res['rejected']:
        shutil.rmtree(wd, ignore_errors=True)
    return ck.finish()
