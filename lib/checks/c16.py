"""C16 - secure mode never exposes writable-and-executable JIT pages (DESIGN 6-C16)."""
import os, json, shutil
import vlib, apiscen

SECURE = 16
JIT = 8
FULL = 4


def flatten(trace):
    """per-call events -> one line per call / OS request / return"""
    out = []
    vm = {}      # vm id -> dict(jit, secure, light)
    for l in trace:
        ev = json.loads(l)
        e = ev['e']
        if e in ('Reset', 'SetCsr', 'AppMalloc', 'AppFree', 'InitDatasetChunk'):
            if e == 'Reset':
                out.append(l)
            continue
        if e in ('Crash', 'Timeout', 'Exception', 'HarnessExit'):
            out.append(l)
            continue
        name, obj, kind, secure, light = e, 'none', 'other', False, False
        if e == 'CreateVm':
            fl = ev['flags']
            vm[ev['v']] = {'jit': bool(fl & JIT), 'secure': bool(fl & SECURE), 'light': not (fl & FULL)}
        if 'v' in ev and ev['v'] in vm:
            d = vm[ev['v']]
            obj, secure, light = ev['v'], d['secure'], d['light']
            kind = 'vm' if d['jit'] else 'other'
            if not d['jit']:
                name = 'Other'
        elif e in ('AllocCache', 'InitCache', 'ReleaseCache', 'InitDatasetReal'):
            obj, kind = ev['c'], 'cache'
            if e == 'AllocCache' and not (ev['flags'] & JIT):
                kind, name = 'other', 'Other'
        call = {'e': 'call', 'name': name, 'obj': obj, 'kind': kind, 'secure': secure, 'light': light,
                'rebind': ev.get('rebind', False), 'reinit': ev.get('reinit', False)}
        out.append(json.dumps(call))
        for o in ev.get('os', []):
            if o['k'] in ('M', 'U') and (o['n'] != 'code' or not o['ok']):
                continue
            if o['k'] in ('M', 'P', 'U'):
                out.append(json.dumps({'e': 'os', 'k': o['k'], 'a': o['a'], 'prot': o['prot'], 'ok': o.get('ok', True), 'in': e}))
        out.append(json.dumps({'e': 'ret', 'maps': ev.get('maps', []), 'of': e}))
    return out


def run():
    ck = vlib.Check('C16', 'model_checking')
    wd = os.path.join(vlib.WORK, 'c16')
    shutil.rmtree(wd, ignore_errors=True)
    os.makedirs(wd)
    ck.sensitivity('RxProt', 'MCProt_retry.cfg', 'a refused RW->RX protection change is retried with R+W+X')
    r = vlib.tlc('RxProt', 'MCProt.cfg', workers=4, timeout=600)
    ck.add_model('MCProt', r, '2 VMs (secure/non-secure x light/full) + 1 JIT cache, every history of create/hash/set_cache/destroy/alloc/init/init_dataset/release, one TLC state per protection request; any protection change may be refused by the operating system (the call ends there)')
    if not r['ok']:
        ck.violation('model:RxProt', 'protection model violates NoWX/NoFault', vlib.tlc_error_summary(r['out'], 50))
    # histories: TLC-generated API behaviours (light VMs) + directed ones, all JIT VMs secure, all caches JIT
    nsel = 120 if ck.thorough else 24
    rs, hists = apiscen.tlc_scenarios('SimApiHist.cfg', 1500 if ck.thorough else 300, 22, ck.seed + 7)
    chosen, covered = apiscen.select(hists or [], nsel, ck.rng)
    directed = json.load(open(os.path.join(vlib.VERIF, 'lib', 'c03_directed.json')))
    A = lambda **k: k
    full = [A(a='AllocCache', c='c1', s='s1', m='m1'), A(a='InitCache', c='c1', k='K1'), A(a='AllocDataset', d='d1', m='dm1'),
            {'a': 'InitDatasetReal', 'd': 'd1', 'c': 'c1', 'start': 1000, 'count': 777},
            A(a='InitDatasetChunk', d='d1', c='c1', j=1), A(a='InitDatasetChunk', d='d1', c='c1', j=2),
            A(a='CreateVm', v='v1', kind='CF', c='none', d='d1', v2=False), A(a='Hash', v='v1', key='K1', **{'in': 'I1'}),
            A(a='InitCache', c='c1', k='K2'), {'a': 'InitDatasetReal', 'd': 'd1', 'c': 'c1', 'start': 0, 'count': 64},
            A(a='SetV2', v='v1', on=True), A(a='HashFirst', v='v1', **{'in': 'I2'}), A(a='HashLast', v='v1', key='K1', pin='I2'),
            A(a='DestroyVm', v='v1'), A(a='ReleaseDataset', d='d1'), A(a='ReleaseCache', c='c1')]
    allh = [full] + directed + chosen
    scens = []
    for i, h in enumerate(allh):
        opts = {'cachejit': 1, 'secure': 1, 'hard': i % 2, 'argon': i % 3}
        text = ''
        for a in h:
            if a['a'] == 'InitDatasetReal':
                text += 'InitDatasetReal %s %s %d %d\n' % (a['d'], a['c'], a['start'], a['count'])
            else:
                text += apiscen.to_text([a], opts)
        scens.append({'text': text, 'ks': i % 3, 'iset': 0})
    # one non-secure control scenario: the model allows RWX there, the trace spec must too (no false alarm)
    ctl = [A(a='AllocCache', c='c1', s='s1', m='m1'), A(a='InitCache', c='c1', k='K1'), A(a='CreateVm', v='v1', kind='CL', c='c1', d='none', v2=False),
           A(a='Hash', v='v1', key='K1', **{'in': 'I1'}), A(a='DestroyVm', v='v1'), A(a='ReleaseCache', c='c1')]
    scens.append({'text': apiscen.to_text(ctl, {'cachejit': 1, 'secure': 0}), 'ks': 0, 'iset': 0})
    # every secure JIT flag combination, including LARGE_PAGES (the VM cannot be created without huge pages,
    # but whatever the constructor requests before failing is observed)
    combo_txt = 'AllocCache c1 s1 m1 jit=1\nInitCache c1 K1\nAllocDataset d1 dm1 nchunks=1\nInitDatasetChunk d1 c1 1\n'
    for fullm in (0, 1):
        for hard in (0, 1):
            for large in (0, 1):
                kind = 'CF' if fullm else 'CL'
                combo_txt += 'CreateVm v1 %s %s %s v2=0 hard=%d secure=1 large=%d\n' % (kind, 'none' if fullm else 'c1', 'd1' if fullm else 'none', hard, large)
                if not large:
                    combo_txt += ('Hash v1 I1 key=K1\n' if not fullm else '') + 'DestroyVm v1\n'
    combo_txt += 'AllocCache c2 s2 m2 jit=1 large=1\nReleaseDataset d1\nReleaseCache c1\n'
    scens.append({'text': combo_txt, 'ks': 0, 'iset': 0, 'nomodel': True})
    # the same combinations with an emulated huge-page pool, so that the LARGE_PAGES VMs really exist and hash
    scens.append({'text': 'HugePool 64\n' + combo_txt.replace('AllocCache c2 s2 m2 jit=1 large=1\n', '').replace(' large=1\n', ' large=1\nHash v1 I1 key=K1\nDestroyVm v1\n'), 'ks': 0, 'iset': 0, 'nomodel': True})
    # a refused protection change (the k-th mprotect of a call fails): whatever the library does then, it must not ask for W+X on a
    # secure or cache buffer.  (An exception that ends the call or the process is an allowed outcome here.)
    for k in (1, 2, 3):
        for kind in ('CL', 'CF'):
            bind = ('c1', 'none') if kind == 'CL' else ('none', 'd1')
            t = 'AllocCache c1 s1 m1 jit=1\nInitCache c1 K1\nAllocDataset d1 dm1 nchunks=1\nInitDatasetChunk d1 c1 1\n'
            t += 'FailProt %d\nCreateVm v1 %s %s %s v2=0 hard=0 secure=1\n' % (k, kind, bind[0], bind[1])
            scens.append({'text': t + 'ReleaseDataset d1\nReleaseCache c1\n', 'ks': 0, 'iset': 0, 'nomodel': True, 'faulty': True})
            t2 = 'AllocCache c1 s1 m1 jit=1\nInitCache c1 K1\nAllocDataset d1 dm1 nchunks=1\nInitDatasetChunk d1 c1 1\nCreateVm v1 %s %s %s v2=0 hard=0 secure=1\n' % (kind, bind[0], bind[1])
            t2 += 'Hash v1 I1 key=K1\nFailProt %d\nHash v1 I2 key=K1\n' % k
            scens.append({'text': t2, 'ks': 0, 'iset': 0, 'nomodel': True, 'faulty': True})
        scens.append({'text': 'AllocCache c1 s1 m1 jit=1\nInitCache c1 K1\nFailProt %d\nInitCache c1 K2\n' % k, 'ks': 0, 'iset': 0, 'nomodel': True, 'faulty': True})
    combos = sorted(set((s['ks'], s['iset']) for s in scens))
    tabs = apiscen.fresh_tables(combos, lambda c: ['IL', 'CL', 'CF'] if c == (0, 0) else ['IL', 'CL'], os.path.join(wd, 'fresh'))
    for s in scens:
        s['data'], s['fresh'] = tabs[(s['ks'], s['iset'])]
    traces = apiscen.replay(scens, os.path.join(wd, 'replay'), os_log=True, watchdog=600)
    lines, group, mlines, mgroup = [], [], [], []
    for j, t in enumerate(traces):
        fl = flatten(t)
        if scens[j].get('faulty'):      # injected OS failure: the call / the process may end with an exception
            fl = [l for l in fl if not l.startswith(('{"e":"Crash"', '{"e":"Exception"', '{"e": "HarnessExit"', '{"e":"Timeout"'))]
        lines += ['{"e":"Reset"}'] + fl
        group += [j] * (len(fl) + 1)
        if not scens[j].get('nomodel'):     # the abstract model has no failing constructor
            mlines += ['{"e":"Reset"}'] + fl
            mgroup += [j] * (len(fl) + 1)
    res = vlib.validate_sharded('TraceProt', 'TraceProt.cfg', lines, 'c16', shards=16, timeout=1500, group=group, independent=False)
    ck.add_traces('TraceProt', res, 'every mmap/mprotect/munmap on code buffers during secure-VM histories, NoWX after each request, kernel view (/proc/self/maps) at each return')
    for rj in res['rejected']:
        shard_lines = [l for l in open(rj['file']).read().splitlines() if l]
        upto = shard_lines[:rj['line_no']]
        calls = [json.loads(x) for x in upto if x.startswith('{"e": "call"')]
        cname = calls[-1]['name'] + ':' + calls[-1]['kind'] if calls else '?'
        ck.violation('prot:%s:%s' % (cname, rj['line'][:60].replace('"', '').replace(' ', '')), 'protection event rejected: %s | %s' % (rj['line'][:200], rj['tlc'][:300]),
                     {'trace_tail': upto[-8:], 'tlc': rj['tlc']})
    # binding of the abstract model (model drift is reported, it is not a violation of C16)
    res2 = vlib.validate_sharded('TraceProtModel', 'TraceProtModel.cfg', mlines, 'c16m', shards=16, timeout=1500, group=mgroup, independent=False)
    ck.cov['parts']['TraceProtModel'] = {'trace_events_accepted': res2['accepted'], 'trace_events_total': res2['total'],
                                         'model_drift': [x['line'][:200] for x in res2['rejected']][:5]}
    ck.cov['states'] += res2['states']
    ck.cov['transitions'] += res2['transitions']
    if res2['rejected']:
        vlib.log('[c16] MODEL-DRIFT: the code issues a protection sequence RxProt does not describe: %s' % res2['rejected'][0]['line'][:300])
    nprot = sum(1 for l in lines if l.startswith('{"e": "os"'))
    ck.cov['protection_requests'] = nprot
    ck.cov['scenarios_replayed'] = len(scens)
    ck.cov['evaluations'] = nprot
    ck.cov['distinct_nontrivial'] = len(set(s['text'] for s in scens))
    ck.cov['rule'] = 'API histories (TLC-generated + directed + one full-memory secure history with real dataset-init calls) with all JIT VMs secure and all caches JIT; non-trivial = distinct scenario'
    ck.cov['rule'] += '; plus: refused protection changes (k-th mprotect fails) during secure VM creation / hashing / cache re-keying, all secure combinations with an emulated huge-page pool'
    ck.sample({'scenario': scens[0]['text'].splitlines()})
    osl = [l for l in lines if l.startswith('{"e": "os"')]
    ck.sample(osl[:6])
    ck.assumptions += ['code buffers are recognised as the mappings of getCodeSize() bytes requested by the library itself', 'Linux protection bits as passed to mprotect and as read back from /proc/self/maps']
    if not res['rejected'] and not res2['rejected']:
        shutil.rmtree(wd, ignore_errors=True)
    return ck.finish()
