"""C17 - the portable (non-SIMD) code path computes the same function (DESIGN 6-C17)."""
import os, json, shutil
from concurrent.futures import ThreadPoolExecutor
import vlib
from checks import c04, c05


def run():
    ck = vlib.Check('C17', 'model_checking')
    wd = os.path.join(vlib.WORK, 'c17')
    shutil.rmtree(wd, ignore_errors=True)
    os.makedirs(wd)
    r = vlib.tlc('RxCfg', 'MCCfg.cfg', workers=8, timeout=900)
    ck.add_model('MCCfg', r, 'configuration model with the build dimension {default, portable}: equal digests for every pair of configurations')
    if not r['ok']:
        ck.violation('model:RxCfg', 'configuration model violates an invariant', vlib.tlc_error_summary(r['out'], 50))
    # (1) per-instruction and per-program results of the PORTABLE build against the same TLA+ oracle as the default build
    isa = c05.record('portable', ['steps', 'mulgrid', 'memops', 'fp', 'rcp'], ck, wd, 'pisa')
    res = vlib.validate_sharded('TraceIsa', 'TraceIsa.cfg', isa, 'c17isa', shards=16, timeout=3000)
    ck.add_traces('TraceIsa(portable)', res, 'portable build: instruction words decoded/executed by BytecodeMachine (generic vector structs, fesetround rounding, 32x32 mulh/smulh, shift rotates), IEEE ops through fenv, reciprocal')
    ck.reject('TraceIsa(portable)', res, lambda rj: 'portable:' + c05.key_of(rj))
    vmrec = c04.record_vm(ck, wd, ['oracle', 'branch'], variant='portable', extra_flags=['-DRANDOMX_VERIF_NOJIT'])
    vml = vmrec['oracle'] + vmrec['branch']
    c04.validate_vm(ck, 'c17vm', vml, 'portable build: whole program runs of the interpreter (soft AES) executed by the TLA+ VM')
    # (2) public API: digests, register file after each program, dataset items, caller rounding direction: default vs portable
    def port(variant):
        exe = vlib.build_harness('rx_port', variant=variant)
        outp = os.path.join(wd, 'port_%s.ndjson' % variant)
        return vlib.run_harness([exe, '--seed', str(ck.seed), '--tier', ck.tier, '--build', 'default' if variant == 'verif' else variant, '--out', outp], outp, timeout=3000)
    with ThreadPoolExecutor(2) as ex:
        pa, pb = list(ex.map(port, ['verif', 'portable']))
    lines = pa + pb
    res2 = vlib.validate_sharded('TraceCfg', 'TraceCfg.cfg', lines, 'c17cfg', shards=1, timeout=1500, group=[0] * len(lines))
    ck.add_traces('TraceCfg(builds)', res2, 'default vs portable build: digests (single and pipelined), register file after every program, dataset items, rounding direction restored')

    def key(rj):
        try:
            ev = json.loads(rj['line'])
            return 'build:%s:%s:%s:%s:%s' % (ev['e'], ev.get('build'), ev.get('key'), ev.get('input', ev.get('lo')), ev.get('idx', ev.get('api', '')))
        except Exception:
            return 'trace'
    ck.reject('TraceCfg(builds)', res2, key)
    ck.cov['portable_instruction_steps'] = sum(1 for l in isa if l.startswith('{"e":"step"'))
    ck.cov['portable_program_runs'] = sum(1 for l in vml if l.startswith('{"e":"run"'))
    ck.cov['api_events_per_build'] = len(pa)
    ck.cov['evaluations'] = len(isa) + len(vml) + len(lines)
    ck.cov['distinct_nontrivial'] = len(set(isa)) + len(set(lines)) // 2
    # the caller's FP environment on the portable build (fenv code path): entry control words set through MXCSR, single and pipelined calls;
    # the word must be restored exactly and the digest must be the fresh one (fresh digests come from the default build)
    import apiscen
    pexe = vlib.build_harness('rx_api', variant='portable', extra=['-fno-access-control'])
    words = [(rc << 13) | 0x1f80 for rc in (1, 2, 3)] + [0x9fc0, 0x1fc0 | (2 << 13), 0x1f80]
    t = ['AllocCache c1 s1 m1 jit=0 argon=0', 'InitCache c1 K1', 'CreateVm v1 IL c1 none v2=0 hard=0 secure=0']
    for i, w in enumerate(words):
        t += ['SetCsr %d' % w, 'Hash v1 %s key=K1' % ('I1' if i % 2 else 'I2')]
    t += ['SetCsr %d' % words[0], 'HashFirst v1 I1', 'SetCsr %d' % words[1], 'HashNext v1 I2 key=K1 pin=I1', 'SetCsr %d' % words[2], 'HashLast v1 key=K1 pin=I2', 'SetCsr 8064', 'DestroyVm v1', 'ReleaseCache c1']
    ptabs = apiscen.fresh_tables([(0, 0)], ['IL', 'CL'], os.path.join(wd, 'pfresh'))
    psc = [{'text': '\n'.join(t) + '\n', 'data': ptabs[(0, 0)][0], 'fresh': ptabs[(0, 0)][1]}]
    ptr = apiscen.replay(psc, os.path.join(wd, 'preplay'), watchdog=900, binp=pexe)
    # projected to the configuration-independence events: digest = fresh digest (default build); a single-call hash leaves MXCSR as it was
    plines = []
    for l in ptr[0]:
        ev = json.loads(l)
        if ev['e'] in ('Hash', 'HashNext', 'HashLast'):
            o = {'e': 'hash', 'key': 'pfp:' + ev['key'], 'input': 'pfp:' + ev['hin'], 'v2': False, 'out': ev['out'], 'ref': ev['fresh'], 'build': 'portable'}
            if ev['e'] == 'Hash':
                o['csrBefore'], o['csrAfter'] = ev['csrBefore'], ev['csrAfter']
            plines.append(json.dumps(o))
        elif ev['e'] in ('Crash', 'Timeout', 'Exception', 'HarnessExit'):
            plines.append(l)
    pres = vlib.validate_sharded('TraceCfg', 'TraceCfg.cfg', plines, 'c17fp', shards=1, timeout=1500)
    ck.add_traces('TraceCfg(portable, FP environment)', pres, 'portable build: hash calls under entry MXCSR words with every rounding mode / FTZ / DAZ, single and pipelined; control word restored exactly by the single-call hash, digest = fresh digest of the default build')
    for rj in pres['rejected']:
        ck.violation('portable-fpenv:' + rj['line'][:70].replace('"', ''), 'portable build: hash call rejected: %s' % rj['line'][:300], {'tlc': rj['tlc']})
    # the generic fallbacks must not keep process-wide state (a remembered rounding mode, a scratch buffer): per-call global-write footprint
    from checks import c14
    c14.portable_footprint(ck, os.path.join(wd, 'pfoot'))
    ck.cov['rule'] = 'same seeded samples as C05/C04 recorded from a second build of the same tree with -U__SSE2__ -U__SSE__ -U__AES__ -U__SIZEOF_INT128__ (generic fallbacks), validated against the same TLA+ oracle; API-level results of both builds must coincide event by event'
    ck.sample(isa[0][:500])
    ck.sample(pb[-1])
    ck.assumptions += ['big-endian and PPC/ARM sections of intrin_portable.h cannot be executed on this host', 'the x86 JIT is not part of the portable path']
    if not ck.violations:
        shutil.rmtree(wd, ignore_errors=True)
    return ck.finish()
