"""C17 - the portable (non-SIMD) code path computes the same function (DESIGN 6-C17)."""
import os, json, shutil
from concurrent.futures import ThreadPoolExecutor
import vlib
from checks import c04, c05


def run():
    ck = vlib.Check('C17', 'model_checking')
    wd = os.path.join(vlib.WORK, 'c17')
    shutil.rmtree(wd, ignore_errors=True)
    os.makedirs(wd)
    r = vlib.tlc('RxCfg', 'MCCfg.cfg', workers=8, timeout=900)
    ck.add_model('MCCfg', r, 'configuration model with the build dimension {default, portable}: equal digests for every pair of configurations')
    if not r['ok']:
        ck.violation('model:RxCfg', 'configuration model violates an invariant', vlib.tlc_error_summary(r['out'], 50))
    # (1) per-instruction and per-program results of the PORTABLE build against the same TLA+ oracle as the default build
    isa = c05.record('portable', ['steps', 'mulgrid', 'memops', 'fp', 'rcp'], ck, wd, 'pisa')
    res = vlib.validate_sharded('TraceIsa', 'TraceIsa.cfg', isa, 'c17isa', shards=16, timeout=3000)
    ck.add_traces('TraceIsa(portable)', res, 'portable build: instruction words decoded/executed by BytecodeMachine (generic vector structs, fesetround rounding, 32x32 mulh/smulh, shift rotates), IEEE ops through fenv, reciprocal')
    ck.reject('TraceIsa(portable)', res, lambda rj: 'portable:' + c05.key_of(rj))
    vmrec = c04.record_vm(ck, wd, ['oracle', 'branch'], variant='portable', extra_flags=['-DRANDOMX_VERIF_NOJIT'])
    vml = vmrec['oracle'] + vmrec['branch']
    c04.validate_vm(ck, 'c17vm', vml, 'portable build: whole program runs of the interpreter (soft AES) executed by the TLA+ VM')
    # (2) public API: digests, register file after each program, dataset items, caller rounding direction: default vs portable
    def port(variant):
        exe = vlib.build_harness('rx_port', variant=variant)
        outp = os.path.join(wd, 'port_%s.ndjson' % variant)
        return vlib.run_harness([exe, '--seed', str(ck.seed), '--tier', ck.tier, '--build', 'default' if variant == 'verif' else variant, '--out', outp], outp, timeout=3000)
    with ThreadPoolExecutor(2) as ex:
        pa, pb = list(ex.map(port, ['verif', 'portable']))
    lines = pa + pb
    res2 = vlib.validate_sharded('TraceCfg', 'TraceCfg.cfg', lines, 'c17cfg', shards=1, timeout=1500, group=[0] * len(lines))
    ck.add_traces('TraceCfg(builds)', res2, 'default vs portable build: digests (single and pipelined), register file after every program, dataset items, rounding direction restored')

    def key(rj):
        try:
            ev = json.loads(rj['line'])
            return 'build:%s:%s:%s:%s:%s' % (ev['e'], ev.get('build'), ev.get('key'), ev.get('input', ev.get('lo')), ev.get('idx', ev.get('api', '')))
        except Exception:
            return 'trace'
    ck.reject('TraceCfg(builds)', res2, key)
    ck.cov['portable_instruction_steps'] = sum(1 for l in isa if l.startswith('{"e":"step"'))
    ck.cov['portable_program_runs'] = sum(1 for l in vml if l.startswith('{"e":"run"'))
    ck.cov['api_events_per_build'] = len(pa)
    ck.cov['evaluations'] = len(isa) + len(vml) + len(lines)
    ck.cov['distinct_nontrivial'] = len(set(isa)) + len(set(lines)) // 2
    # the generic fallbacks must not keep process-wide state (a remembered rounding mode, a scratch buffer): per-call global-write footprint
    from checks import c14
    c14.portable_footprint(ck, os.path.join(wd, 'pfoot'))
    ck.cov['rule'] = 'same seeded samples as C05/C04 recorded from a second build of the same tree with -U__SSE2__ -U__SSE__ -U__AES__ -U__SIZEOF_INT128__ (generic fallbacks), validated against the same TLA+ oracle; API-level results of both builds must coincide event by event'
    ck.sample(isa[0][:500])
    ck.sample(pb[-1])
    ck.assumptions += ['big-endian and PPC/ARM sections of intrin_portable.h cannot be executed on this host', 'the x86 JIT is not part of the portable path']
    if not ck.violations:
        shutil.rmtree(wd, ignore_errors=True)
    return ck.finish()
