"""C18 - the IMUL_RCP reciprocal is exact for every divisor (DESIGN 6-C18)."""
import os, json, shutil
import vlib
from checks import c05


def run():
    ck = vlib.Check('C18', 'model_checking')
    wd = os.path.join(vlib.WORK, 'c18')
    shutil.rmtree(wd, ignore_errors=True)
    os.makedirs(wd)
    r = vlib.tlc('MCIsa', 'MCIsa.cfg', workers=16, timeout=1800)
    ck.add_model('MCIsa', r, 'reciprocal.c algorithm = floor(2^(2W-1+bitlen(d))/d) for all non-power-of-two divisors, W in {4,6,8,10}; IMUL_RCP decodes to a no-op exactly for 0 and powers of two and then leaves the last-writer table unchanged; full-width IsRcp on 12 immediate classes')
    if not r['ok']:
        ck.violation('model:MCIsa', 'reciprocal model check failed', vlib.tlc_error_summary(r['out'], 40))
    parts = ['rcp', 'rcpnoop', 'sweep']
    lines = c05.record('verif', parts, ck, wd, 'rcp')
    res = vlib.validate_sharded('TraceIsa', 'TraceIsa.cfg', lines, 'c18', shards=16, timeout=3000)
    ck.add_traces('TraceIsa', res, 'randomx_reciprocal / randomx_reciprocal_fast results; IMUL_RCP words with every no-op divisor on every register through decode and execute')

    def key(rj):
        try:
            ev = json.loads(rj['line'])
            if ev['e'] == 'rcp':
                return 'rcp:d=%d' % (ev['d'][0] + 65536 * ev['d'][1])
            if ev['e'] == 'step':
                return 'imulrcp:imm=%d:dst=%d' % (ev['w'][4] + 256 * ev['w'][5] + 65536 * ev['w'][6] + 16777216 * ev['w'][7], ev['w'][1] % 8)
            return ev['e']
        except Exception:
            return 'trace'
    ck.reject('TraceIsa', res, key)
    # "a no-op IMUL_RCP does not count as a register write" is visible only through the branch target of a later CBRANCH:
    # loop programs with no-op IMUL_RCP words between the writers and the branches, both engines and the TLA+ VM
    from checks import c04
    recs = c04.record_vm(ck, wd, ['branch'], extra_args=['--np', '600' if ck.thorough else '200'])
    c04.validate_vm(ck, 'c18seq', recs['branch'], 'programs with no-op IMUL_RCP words (zero / power-of-two divisors on r0-r2) between register writers and CBRANCH: branch targets decoded by the interpreter and encoded by the x86 JIT = specification; runs = TLA+ VM')
    # the reciprocals the SuperscalarHash programs of a cache really multiply by: the table randomx_init_cache builds
    from checks import c09
    c09.scripted_init(ck, wd)
    # ... and the table a VM uses after the cache's table was rebuilt and reallocated: key pair with 193 / 281 IMUL_RCP, VM re-bound late
    import apiscen
    scens = []
    for kind in ('IL', 'CL'):
        h = apiscen.late_rebind_history(kind)
        scens.append({'hist': h, 'ks': 8, 'iset': 0, 'text': apiscen.to_text(h, {'cachejit': 1, 'argon': 0, 'hard': 0, 'secure': 0})})
    tabs = apiscen.fresh_tables([(8, 0)], ['IL', 'CL'], os.path.join(wd, 'fresh'))
    for sc in scens:
        sc['data'], sc['fresh'] = tabs[(8, 0)]
    traces = apiscen.replay(scens, os.path.join(wd, 'replay'), watchdog=600)
    alines, agroup = [], []
    for j, t in enumerate(traces):
        alines += ['{"e":"Reset"}'] + t
        agroup += [j] * (len(t) + 1)
    ares = vlib.validate_sharded('TraceApi', 'TraceApi.cfg', alines, 'c18api', shards=2, timeout=1500, group=agroup, independent=False)
    ck.add_traces('TraceApi(table growth)', ares, 'a light VM bound before the cache is re-keyed to a key with more IMUL_RCP (reciprocal table reallocated) and back, re-bound only afterwards: digests = fresh digests')
    for rj in ares['rejected']:
        ck.violation('rcptable:' + rj['line'][:60].replace('"', ''), 'hash after the reciprocal table was rebuilt is rejected: %s' % rj['line'][:300], {'tlc': rj['tlc']})
    ck.cov['branch_programs_with_noop_imul_rcp'] = sum(1 for l in recs['branch'] if '"first":true' in l)
    ck.cov['divisors_checked'] = sum(1 for l in lines if l.startswith('{"e":"rcp"'))
    ck.cov['noop_words_checked'] = sum(1 for l in lines if l.startswith('{"e":"step"'))
    sw = [json.loads(l) for l in lines if l.startswith('{"e":"sweep"')]
    if sw:
        ck.cov['sweep_divisors'] = sum(v << (16 * i) for i, v in enumerate(sw[0]['divisors']))
    ck.cov['evaluations'] = len(lines) + r['generated']
    ck.cov['distinct_nontrivial'] = len(set(lines)) + r['distinct']
    ck.cov['rule'] = 'divisors 3,5,6,7,9, 2^k+-1, 2^k+2^(k-1), 2^32-1, 2^32-2, seeded random (incl. short ones); no-op divisors 0 and 2^0..2^31 x 8 destination registers; a sweep in C++ with 128-bit integers (quick: every 32nd divisor from a seeded offset = 2^27 divisors; thorough: all 2^32) as measured mismatch counts, tied to the TLA+ definition by the sampled events'
    ck.sample(lines[0])
    ck.sample(([l for l in lines if l.startswith('{"e":"step"')] or [''])[0][:600])
    ck.assumptions += ['the exhaustive 2^32 sweep (thorough tier) evaluates the defining inequality in C++ (unsigned __int128); TLC evaluates it on the sampled divisors only']
    if not res['rejected']:
        shutil.rmtree(wd, ignore_errors=True)
    return ck.finish()
