#!/usr/bin/env python3
"""Confirms seeded changes delivered by sub-agents (.work/staging/<prop>/patch_X.diff + demo_X.cpp) in scratch
worktrees outside /repo and /verif: with the change the tree builds, the unedited test suite passes and the
demonstration fails; without it the demonstration passes.  Confirmed ones are stored as seeded/<prop>-<X>/."""
import os, sys, subprocess, json, shutil, tempfile, time
from concurrent.futures import ThreadPoolExecutor
V = os.path.dirname(os.path.dirname(os.path.abspath(__file__)))
ST = os.path.join(V, '.work', 'staging')


def sh(cmd, cwd=None, timeout=1800):
    p = subprocess.run(cmd, cwd=cwd, shell=isinstance(cmd, str), capture_output=True, text=True, timeout=timeout)
    return p.returncode, (p.stdout + p.stderr)


def build(wt):
    rc, out = sh('cmake -G Ninja -B _build -S . -DCMAKE_BUILD_TYPE=RelWithDebInfo >/dev/null && cmake --build _build -j4', cwd=wt)
    return rc == 0, out[-500:]


def demo(wt, src, name):
    exe = os.path.join(wt, '_build', name)
    flags = '-O1 -g -std=c++17 -maes -fno-access-control -pthread'
    rc, out = sh('g++ %s -I src %s _build/librandomx.a -lpthread -o %s' % (flags, src, exe), cwd=wt)
    if rc != 0:
        return None, 'demo build failed: ' + out[-400:]
    try:
        rc, out = sh('timeout 900 %s' % exe, cwd=wt, timeout=1000)
    except subprocess.TimeoutExpired:
        return 124, 'timeout'
    return rc, out[-400:]


def one(job):
    prop, x = job
    d = os.path.join(ST, prop)
    patch = os.path.join(d, 'patch_%s.diff' % x)
    dsrc = os.path.join(d, 'demo_%s.cpp' % x)
    res = {'property': prop, 'change': x, 'ran': time.strftime('%Y-%m-%d %H:%M')}
    base = tempfile.mkdtemp(prefix='rxseed_', dir='/tmp')
    wt = os.path.join(base, 'repo')
    sh(['git', '-C', '/repo', 'worktree', 'add', '--detach', wt, 'HEAD'])
    try:
        rc, out = sh(['git', '-C', wt, 'apply', patch])
        if rc != 0:
            sh(['git', '-C', wt, 'reset', '--hard', '-q'])
            rc, out = sh(['patch', '-p1', '--fuzz=3', '-N', '--batch', '-d', wt, '-i', patch])
        if rc != 0:
            res['status'] = 'patch does not apply to the current tree'
            return res
        sh('find . -name "*.orig" -delete; find . -name "*.rej" -delete', cwd=wt)
        rc, diff = sh(['git', '-C', wt, 'diff'])
        ok, out = build(wt)
        if not ok:
            res['status'] = 'does not build: ' + out
            return res
        rc, out = sh('timeout 900 ./randomx-tests', cwd=os.path.join(wt, '_build'))
        res['tests_pass_with_change'] = (rc == 0 and 'All tests PASSED' in out)
        shutil.copy(dsrc, os.path.join(wt, 'demo.cpp'))
        rc1, o1 = demo(wt, 'demo.cpp', 'demo_changed')
        res['demo_with_change'] = {'rc': rc1, 'tail': o1[-200:]}
        sh(['git', '-C', wt, 'checkout', '--', 'src', 'CMakeLists.txt'])
        ok, out = build(wt)
        rc0, o0 = demo(wt, 'demo.cpp', 'demo_orig')
        res['demo_without_change'] = {'rc': rc0, 'tail': o0[-200:]}
        res['confirmed'] = bool(res['tests_pass_with_change'] and rc1 not in (0, None) and rc0 == 0)
        res['status'] = 'confirmed' if res['confirmed'] else 'not confirmed'
        if res['confirmed']:
            out_d = os.path.join(V, 'seeded', '%s-%s' % (prop, x))
            os.makedirs(out_d, exist_ok=True)
            open(os.path.join(out_d, 'patch.diff'), 'w').write(diff)
            shutil.copy(dsrc, os.path.join(out_d, 'demo.cpp'))
            json.dump(res, open(os.path.join(out_d, 'confirm.json'), 'w'), indent=1)
        return res
    finally:
        sh(['git', '-C', '/repo', 'worktree', 'remove', '--force', wt])
        shutil.rmtree(base, ignore_errors=True)


def main():
    jobs = []
    for prop in sorted(os.listdir(ST)):
        for x in ('A', 'B', 'C', 'D', 'E', 'F', 'G', 'H', 'I', 'J'):
            if os.path.exists(os.path.join(ST, prop, 'patch_%s.diff' % x)) and not os.path.exists(os.path.join(V, 'seeded', '%s-%s' % (prop, x), 'confirm.json')):
                if len(sys.argv) > 1 and prop not in sys.argv[1:]:
                    continue
                jobs.append((prop, x))
    with ThreadPoolExecutor(int(os.environ.get('CONFIRM_JOBS', '3'))) as ex:
        for r in ex.map(one, jobs):
            print(json.dumps({k: v for k, v in r.items() if k in ('property', 'change', 'status', 'tests_pass_with_change')}), flush=True)
            json.dump(r, open(os.path.join(V, '.work', 'confirm_%s_%s.json' % (r['property'], r['change'])), 'w'), indent=1)


if __name__ == '__main__':
    main()
