#!/usr/bin/env python3
"""writes MANIFEST.json from the table below (single source of truth for what is claimed)"""
import json, os
V = os.path.dirname(os.path.dirname(os.path.abspath(__file__)))

CHECKS = {
 'C11': dict(level='model_checking', design='6-C11', technique='TLA+ streaming-machine model checked exhaustively with TLC (all chunkings, small block) + TLC trace validation of recorded Blake2b/commitment calls against an RFC 7693 transcription',
   text='TLC explores every chunking of every message length for a scaled-down block size on the streaming machine (exact RFC call sequence, counter carry, lazy last block, reuse rejection); every recorded call of the real code (one-shot, streaming, blake2b_long, commitment, invalid parameters) must be reproduced byte for byte by the TLA+ transcription of RFC 7693 instantiated with the real block size. Exhaustive in the model, sampled (seeded, boundary-stratified) on the code side.',
   note='trusted: TLC, CommunityModules Bitwise/SequencesExt overrides; messages > 2^30 bytes not replayed (counter carry only in the model)'),
 'C12': dict(level='model_checking', design='6-C12', technique='TLA+ transcription of FIPS-197 rounds and specs.md ch.3 constructions; TLC checks tables/T-view/constants exhaustively and validates recorded soft+hard AES calls (trace validation)',
   text='The S-box, GF(2^8) tables and the T-table view are checked exhaustively against their mathematical definitions in TLC; the published keys are recomputed from Blake2b of the named strings; every recorded call of the real code (software and hardware rounds, both generators, fingerprint, combined step) must equal the TLA+ definition byte for byte, with full recomputation on small buffers and local chain links plus soft/hard difference counts on full-size buffers.',
   note='trusted: TLC, the CPU AES instructions as the hardware path; operands are seeded samples plus boundary patterns, not all 2^256 (state,key) pairs'),
}

NOT_YET = {}
NA = {
 'C19': 'ARM64 JIT: emitted AArch64 code can be neither executed nor observed in this x86-64 sandbox (no emulator); a TLA+ spec cannot be bound to it by traces (DESIGN 7)',
 'C20': 'RV64GC JIT: same as C19 - no way to execute or observe the emitted code here, so no conformance binding is possible (DESIGN 7)',
}


def main():
    props = [json.loads(l)['id'] for l in open(os.path.join(V, 'properties.jsonl'))]
    checks = []
    for pid in props:
        if pid in CHECKS:
            c = CHECKS[pid]
            checks.append({
                'property_id': pid,
                'quick_cmd': 'VERIF_TIER=quick bin/verif check %s' % pid,
                'thorough_cmd': 'VERIF_TIER=thorough bin/verif check %s' % pid,
                'evidence_file': '/verif/evidence/%s.json' % pid,
                'replay_cmd_template': 'bin/verif replay %s {path}' % pid,
                'engine': 'tlc',
                'level_claimed': {'category': c['level'], 'text': c['text'], 'design_ref': 'DESIGN.md ' + c['design']},
                'level_note': c['note'],
                'technique': c['technique'],
            })
    na = []
    for pid in props:
        if pid not in CHECKS:
            na.append({'property_id': pid, 'reason': NA.get(pid) or NOT_YET.get(pid) or 'check not built yet in this round (planned in DESIGN.md 10); nothing is claimed'})
    hooks_commits = []
    hc = os.path.join(V, 'hooks_commits.txt')
    if os.path.exists(hc):
        hooks_commits = [l.split()[0] for l in open(hc) if l.strip() and not l.startswith('#')]
    m = {
        'version': 1,
        'setup_cmd': 'bin/verif setup',
        'hooks': {
            'guard': 'RANDOMX_VERIF',
            'enable': 'checks compile /repo/src themselves with -DRANDOMX_VERIF (lib/vlib.py VARIANTS); the CMake build never defines it',
            'baseline_off_cmd': 'cmake -G Ninja -S /repo -B /repo/_build -DCMAKE_BUILD_TYPE=RelWithDebInfo >/dev/null && cmake --build /repo/_build && cd /repo/_build && ./randomx-tests',
            'source_commits': hooks_commits,
            'add_only': True,
        },
        'engines': [
            {'name': 'tlc', 'path': '/opt/veriftools/tla/tla2tools.jar', 'serves_properties': sorted(CHECKS), 'kind_free_text': 'TLC explicit-state model checker: exhaustive runs of spec/MC*.tla and trace validation of ndjson recordings of the real library with spec/Trace*.tla'},
        ],
        'checks': checks,
        'not_applicable': na,
        'notes': 'All checks: bin/verif check <ID>; tier via VERIF_TIER, seed via VERIF_SEED. Exit 0 held, 1 VIOLATION, 2 infrastructure failure. Specification in spec/*.tla, harnesses in harness/, see DESIGN.md.',
    }
    json.dump(m, open(os.path.join(V, 'MANIFEST.json'), 'w'), indent=1)


if __name__ == '__main__':
    main()
