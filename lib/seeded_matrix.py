#!/usr/bin/env python3
"""Runs the checks against every confirmed seeded change (seeded/<prop>-<X>/patch.diff) in scratch worktrees and
records which check reports a violation: seeded/<prop>-<X>/meta.json and seeded/MATRIX.md."""
import os, sys, json, subprocess, time
from concurrent.futures import ThreadPoolExecutor
V = os.path.dirname(os.path.dirname(os.path.abspath(__file__)))
sys.path.insert(0, os.path.join(V, 'lib'))
import selftest

# checks to run besides the property the change was written against
EXTRA = {'C01-A': ['C03'], 'C01-B': ['C08'], 'C02-A': ['C14', 'C10'], 'C02-B': ['C05', 'C04'], 'C03-B': ['C13'], 'C04-A': ['C05', 'C07'], 'C05-A': ['C18', 'C07'], 'C05-B': ['C18'],
         'C07-A': ['C04'], 'C07-B': ['C14'], 'C10-B': ['C11'], 'C13-B': ['C03'], 'C14-A': ['C08'], 'C18-B': ['C05'], 'C09-A': [], 'C12-B': ['C06'],
         'C02-C': ['C09'], 'C02-D': ['C11'], 'C04-C': ['C07'], 'C04-D': ['C05'], 'C05-C': ['C07', 'C04'], 'C05-D': ['C04'], 'C08-C': ['C09'], 'C09-D': ['C08'],
         'C10-C': ['C03', 'C01'], 'C10-D': ['C11'], 'C06-C': ['C08'],
         'C01-C': ['C08'], 'C01-D': ['C04', 'C07'], 'C18-C': ['C04', 'C07'], 'C18-D': ['C05'], 'C07-C': ['C04'], 'C07-D': ['C14'], 'C03-C': ['C16'], 'C13-C': ['C03'], 'C14-C': ['C08'], 'C12-C': ['C06'],
         'C01-E': ['C04'], 'C01-F': ['C04', 'C03'], 'C02-E': ['C03', 'C10'], 'C02-F': ['C11', 'C10'], 'C06-E': ['C01', 'C03'], 'C06-F': ['C01'], 'C08-E': ['C09'], 'C08-F': ['C03'],
         'C10-E': ['C03'], 'C13-E': ['C03'], 'C15-E': ['C14'], 'C16-E': ['C03'], 'C16-F': ['C15'],
         'C04-E': ['C07'], 'C05-E': ['C04'], 'C05-F': ['C04'], 'C07-E': ['C14'], 'C07-F': ['C04'], 'C09-E': ['C08'], 'C11-F': [], 'C12-E': ['C06'], 'C14-F': [], 'C17-F': ['C13'], 'C18-E': ['C09'], 'C18-F': ['C03'],
         'C01-G': ['C08'], 'C02-G': ['C11'], 'C05-G': ['C18'], 'C06-G': ['C01'], 'C07-G': ['C14'], 'C08-G': ['C09'], 'C10-G': ['C03'], 'C12-G': [], 'C13-G': ['C03'], 'C17-G': ['C14'], 'C18-G': ['C09'],
         'C03-I': [], 'C06-I': ['C12'], 'C08-I': ['C10', 'C03'], 'C13-I': ['C03'], 'C04-I': ['C07'], 'C04-J': ['C07'], 'C09-I': [], 'C09-J': [], 'C05-I': ['C07'], 'C01-I': ['C08'], 'C01-J': ['C10'], 'C02-I': ['C11'], 'C02-J': ['C11'], 'C10-I': ['C03'], 'C10-J': ['C14'], 'C07-I': ['C14'], 'C07-J': ['C14'], 'C18-I': ['C04'], 'C18-J': ['C09'],
         'C06-H': ['C03'], 'C15-H': ['C03'], 'C13-H': [], 'C03-H': [], 'C08-H': [], 'C14-H': [], 'C11-H': [], 'C12-H': [], 'C16-H': []}
NEEDS = json.load(open(os.path.join(V, 'lib', 'seeded_needs.json')))


def one(name):
    d = os.path.join(V, 'seeded', name)
    prop = name.split('-')[0]
    checks = [prop] + EXTRA.get(name, [])
    tier = 'quick'
    res = selftest.run_on_scratch(os.path.join(d, 'patch.diff'), checks, tier) or {}
    conf = json.load(open(os.path.join(d, 'confirm.json')))
    readme = os.path.join(V, '.work', 'staging', prop, ('README_%s.md' % name[-1] if name[-1] in 'IJ' else 'README_H.md' if name[-1] == 'H' else 'README_G.md' if name[-1] == 'G' else 'README_EF.md' if name[-1] in 'EF' else ('README_CD.md' if name[-1] in 'CD' else 'README.md')))
    meta = {'seeded_change': name, 'breaks_property': prop,
            'written_by': 'independent sub-agent given only the property text and a scratch worktree',
            'needs_to_manifest': NEEDS.get(name, 'see description.md (excerpt of the author\'s README)'),
            'confirmed': {'tests_pass_with_change': conf.get('tests_pass_with_change'), 'demo_fails_with_change': conf.get('demo_with_change', {}).get('rc'),
                          'demo_passes_without_change': conf.get('demo_without_change', {}).get('rc'), 'how': 'lib/confirm_seeded.py: scratch worktree of /repo HEAD, cmake build, randomx-tests, demo.cpp linked against librandomx.a; ' + conf.get('ran', '')},
            'checks_run': {c: {'exit': r['rc'], 'violations': r['violations'], 'wall_s': r['wall_s'], 'first': (r['detail'][0][:300] if r['detail'] else '')} for c, r in res.items()},
            'detected_by': [c for c, r in res.items() if r['rc'] == 1],
            'how_run': 'bin/verif selftest mutant seeded/%s/patch.diff %s   (tier %s, scratch worktree, VERIF_REPO)' % (name, ' '.join(checks), tier)}
    json.dump(meta, open(os.path.join(d, 'meta.json'), 'w'), indent=1)
    if os.path.exists(readme) and not os.path.exists(os.path.join(d, 'description.md')):
        txt = open(readme).read()
        open(os.path.join(d, 'description.md'), 'w').write(txt[:6000])
    return meta


def main():
    names = sorted(n for n in os.listdir(os.path.join(V, 'seeded')) if os.path.exists(os.path.join(V, 'seeded', n, 'patch.diff')))
    if len(sys.argv) > 1:
        names = [n for n in names if n in sys.argv[1:] or n.split('-')[0] in sys.argv[1:]]
    with ThreadPoolExecutor(3) as ex:
        metas = list(ex.map(one, names))
    allm = [json.load(open(os.path.join(V, 'seeded', n, 'meta.json'))) for n in sorted(os.listdir(os.path.join(V, 'seeded'))) if os.path.exists(os.path.join(V, 'seeded', n, 'meta.json'))]
    with open(os.path.join(V, 'seeded', 'MATRIX.md'), 'w') as f:
        f.write('# Seeded changes and the checks that report them (quick tier)\n\n| change | checks run -> exit code | detected by |\n|---|---|---|\n')
        for m in allm:
            f.write('| %s | %s | %s |\n' % (m['seeded_change'], ', '.join('%s:%s' % (c, r['exit']) for c, r in m['checks_run'].items()), ', '.join(m['detected_by']) or '**none**'))


if __name__ == '__main__':
    main()
