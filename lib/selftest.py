"""selftest: run checks against seeded changes and report which check catches which change.
   bin/verif selftest mutant <patch.diff> <ID> [<ID>...] [--tier T]
The patch is applied to a scratch git worktree of /repo outside /repo and /verif (removed afterwards);
the checks run with VERIF_REPO pointing there and their own work/evidence directories, so /repo and
the committed evidence are never touched."""
import os, sys, subprocess, json, time, shutil, tempfile
import vlib


def run_on_scratch(patch, pids, tier='quick', keep=False):
    patch = os.path.abspath(patch)
    base = tempfile.mkdtemp(prefix='rxmut_', dir='/tmp')
    wt = os.path.join(base, 'repo')
    work = os.path.join(vlib.VERIF, '.work', 'mut_' + os.path.basename(base))
    r = subprocess.run(['git', '-C', '/repo', 'worktree', 'add', '--detach', wt, 'HEAD'], capture_output=True, text=True)
    if r.returncode != 0:
        print('worktree failed', r.stderr)
        return None
    results = {}
    try:
        # the checks run from a SNAPSHOT of the machinery (bin, lib, spec, harness): a long matrix run is not disturbed by edits made meanwhile
        snap = os.path.join(base, 'verif')
        subprocess.run(['rsync', '-a', '--exclude', '.work', '--exclude', '.git', '--exclude', 'seeded', '--exclude', 'benign', '--exclude', 'evidence',
                        vlib.VERIF + '/', snap + '/'], check=True)
        r = subprocess.run(['git', '-C', wt, 'apply', patch], capture_output=True, text=True)
        if r.returncode != 0:
            subprocess.run(['git', '-C', wt, 'reset', '--hard', '-q'])
            r = subprocess.run(['patch', '-p1', '--fuzz=3', '-N', '--batch', '-d', wt, '-i', patch], capture_output=True, text=True)
        if r.returncode != 0:
            print('patch does not apply:', (r.stdout + r.stderr)[-800:])
            return None
        for pid in pids:
            t0 = time.time()
            env = dict(os.environ, VERIF_TIER=tier, VERIF_REPO=wt, VERIF_WORK=work, VERIF_EVIDENCE_DIR=os.path.join(work, 'evidence'))
            p = subprocess.run([os.path.join(snap, 'bin', 'verif'), 'check', pid], capture_output=True, text=True, env=env, cwd=snap)
            viol = [l for l in p.stdout.splitlines() if l.startswith('VIOLATION')]
            detail = [l.strip() for l in p.stderr.splitlines() if 'violation:' in l][:3]
            results[pid] = {'rc': p.returncode, 'violations': len(viol), 'wall_s': round(time.time() - t0, 1), 'detail': detail}
            print('%s: rc=%d violations=%d (%.0fs)' % (pid, p.returncode, len(viol), time.time() - t0))
            for l in detail:
                print('   ', l[:400])
            if p.returncode == 2:
                results[pid]['detail'] = [p.stderr[-1500:]]
                print(p.stderr[-2000:])
            sys.stdout.flush()
    finally:
        subprocess.run(['git', '-C', '/repo', 'worktree', 'remove', '--force', wt], capture_output=True)
        shutil.rmtree(base, ignore_errors=True)
        if not keep:
            shutil.rmtree(work, ignore_errors=True)
    return results


def main(argv):
    tier = 'quick'
    if '--tier' in argv:
        i = argv.index('--tier')
        tier = argv[i + 1]
        argv = argv[:i] + argv[i + 2:]
    if argv and argv[0] == 'mutant':
        res = run_on_scratch(argv[1], argv[2:], tier)
        return 0 if res is not None else 2
    print(__doc__)
    return 2
