#!/usr/bin/env python3
"""design-time search for scripted generator streams that reach rare paths of the SuperscalarHash generator
(throw-away, aborted decode buffers, long look-ahead).  The path statistics come from the generator machine of
Superscalar.tla (ghost field `stat`), which is compared instruction by instruction with the real generator on the
same stream.   usage: ss_search.py SEED FIRST COUNT   -> prints one line per stream with non-trivial statistics"""
import sys, os, re, json
sys.path.insert(0, os.path.dirname(os.path.abspath(__file__)))
import vlib


def stats_of(prints):
    out = {}
    for p in prints:
        m = re.match(r'<<"SSSTAT", (\d+), (\d+), <<(.*)>>>>', p.strip())
        if not m:
            continue
        per = [[int(x) for x in t.split(',')] for t in re.findall(r'<<([0-9, ]+)>>', m.group(3))]
        out[(int(m.group(1)), int(m.group(2)))] = per
    return out


def main():
    seed, first, count = int(sys.argv[1]), int(sys.argv[2]), int(sys.argv[3])
    exe = vlib.build_harness('rx_ssx', shared=True)
    wd = os.path.join(vlib.WORK, 'ss_search')
    os.makedirs(wd, exist_ok=True)
    outp = os.path.join(wd, 's%d_%d.ndjson' % (seed, first))
    vlib.sh([exe, '--seed', str(seed), '--first', str(first), '--streams', str(count), '--out', outp], timeout=1800)
    xl = [l for l in open(outp).read().splitlines() if l]
    res = vlib.validate_sharded('TraceSs', 'TraceSsNoGen.cfg', xl, 'ss_search_%d_%d' % (seed, first), shards=16, timeout=6000, xmx='4g')
    st = stats_of(res['prints'])
    print('accepted %d/%d rejected %d' % (res['accepted'], res['total'], len(res['rejected'])))
    for (sd, ix), per in sorted(st.items()):
        tot = [sum(p[i] for p in per) for i in range(4)] + [max(p[4] for p in per), sum(p[5] for p in per)]
        if tot[1] or tot[5] or tot[4] > 2:
            print('HIT %d:%d style=%d throw=%d abort=%d look=%d sat=%d maxthrow=%d dstAfterSrcStall=%d' % (sd, ix, ix % 10, *tot))
    os.remove(outp)


if __name__ == '__main__':
    main()
