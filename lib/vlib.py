#!/usr/bin/env python3
"""Shared machinery: builds of /repo's working tree, TLC runs, trace validation, evidence."""
import os, sys, json, subprocess, hashlib, time, shutil, fcntl, re, random, glob
from concurrent.futures import ThreadPoolExecutor

VERIF = os.path.dirname(os.path.dirname(os.path.abspath(__file__)))
REPO = os.environ.get('VERIF_REPO', '/repo')
WORK = os.environ.get('VERIF_WORK', os.path.join(VERIF, '.work'))
SPEC = os.path.join(VERIF, 'spec')
HARNESS = os.path.join(VERIF, 'harness')
TLAJAR = '/opt/veriftools/tla/tla2tools.jar'
CMJAR = '/opt/veriftools/tla/CommunityModules-deps.jar'
JAVADIR = os.path.join(SPEC, 'java')
NCPU = os.cpu_count() or 4


class Infra(Exception):
    """infrastructure failure: exit 2, never a VIOLATION line"""


def log(*a):
    print(*a, file=sys.stderr, flush=True)


def sh(cmd, timeout=600, cwd=None, env=None, check=True, stdin=None):
    e = dict(os.environ)
    if env:
        e.update(env)
    try:
        p = subprocess.run(cmd, cwd=cwd, env=e, timeout=timeout, input=stdin,
                           stdout=subprocess.PIPE, stderr=subprocess.STDOUT)
    except subprocess.TimeoutExpired as ex:
        if check:
            raise Infra('timeout: %s' % ' '.join(cmd[:6]))
        return 124, (ex.stdout or b'').decode('utf8', 'replace')
    out = p.stdout.decode('utf8', 'replace')
    if check and p.returncode != 0:
        raise Infra('command failed (%d): %s\n%s' % (p.returncode, ' '.join(cmd[:8]), out[-4000:]))
    return p.returncode, out


# ----------------------------------------------------------------------------------------------
# builds
# ----------------------------------------------------------------------------------------------
BASE_SOURCES = """aes_hash.cpp argon2_ref.c argon2_ssse3.c argon2_avx2.c bytecode_machine.cpp cpu.cpp
dataset.cpp soft_aes.cpp virtual_memory.c vm_interpreted.cpp allocator.cpp assembly_generator_x86.cpp
instruction.cpp randomx.cpp superscalar.cpp vm_compiled.cpp vm_interpreted_light.cpp argon2_core.c
blake2_generator.cpp instructions_portable.cpp reciprocal.c virtual_machine.cpp vm_compiled_light.cpp
blake2/blake2b.c jit_compiler_x86.cpp jit_compiler_x86_static.S""".split()

COMMON = ['-DNDEBUG', '-DRANDOMX_VERIF', '-fPIC', '-Wno-error', '-w']
VARIANTS = {
    # as CMake's default build (+ hooks on)
    'verif': ['-O2', '-maes'] + COMMON,
    # hooks off: exactly CMake's flags; used to check the guard-off tree
    'plain': ['-O2', '-maes', '-DNDEBUG', '-fPIC', '-w'],
    'tsan': ['-O1', '-g', '-maes', '-fsanitize=thread', '-fno-builtin'] + COMMON,
    'asan': ['-O1', '-g', '-maes', '-fsanitize=address', '-fno-omit-frame-pointer'] + COMMON,
    # generic C++ fallbacks: no SSE2 vector intrinsics, no AES-NI, no __int128, fenv rounding
    'portable': ['-O2', '-U__SSE2__', '-U__SSE__', '-U__AES__', '-U__SIZEOF_INT128__',
                 '-U__SSE4_1__', '-U__SSSE3__', '-U__AVX2__'] + COMMON,
}
PER_FILE = {'argon2_ssse3.c': ['-mssse3'], 'argon2_avx2.c': ['-mavx2']}


def lib_sources():
    """source list from CMakeLists.txt (x86-64 part); falls back to the pinned list"""
    try:
        txt = open(os.path.join(REPO, 'CMakeLists.txt')).read()
        m = re.search(r'set\(randomx_sources\s+(.*?)\)', txt, re.S)
        srcs = [s[len('src/'):] for s in m.group(1).split() if s.startswith('src/')]
        for extra in ('jit_compiler_x86.cpp', 'jit_compiler_x86_static.S'):
            if extra not in srcs:
                srcs.append(extra)
        if all(os.path.exists(os.path.join(REPO, 'src', s)) for s in srcs):
            return srcs
    except Exception:
        pass
    return BASE_SOURCES


def tree_hash(extra=''):
    h = hashlib.sha256()
    for root, dirs, files in sorted(os.walk(os.path.join(REPO, 'src'))):
        dirs.sort()
        if os.path.basename(root) == 'tests':
            continue
        for f in sorted(files):
            p = os.path.join(root, f)
            h.update(p.encode())
            with open(p, 'rb') as fh:
                h.update(fh.read())
    try:
        h.update(open(os.path.join(REPO, 'CMakeLists.txt'), 'rb').read())
    except Exception:
        pass
    h.update(extra.encode())
    return h.hexdigest()[:16]


class Lock:
    def __init__(self, name):
        os.makedirs(os.path.join(WORK, 'locks'), exist_ok=True)
        self.path = os.path.join(WORK, 'locks', name)

    def __enter__(self):
        self.f = open(self.path, 'w')
        fcntl.flock(self.f, fcntl.LOCK_EX)
        return self

    def __exit__(self, *a):
        fcntl.flock(self.f, fcntl.LOCK_UN)
        self.f.close()


def _prune(pattern, keep):
    ds = sorted(glob.glob(pattern), key=lambda d: os.path.getmtime(d), reverse=True)
    for d in ds[keep:]:
        shutil.rmtree(d, ignore_errors=True)


def build_lib(variant='verif'):
    """compile /repo's current working tree; returns directory holding librandomx.a"""
    flags = VARIANTS[variant]
    th = tree_hash(' '.join(flags))
    bdir = os.path.join(WORK, 'build', '%s-%s' % (variant, th))
    with Lock('build-' + variant):
        if os.path.exists(os.path.join(bdir, '.done')):
            os.utime(bdir)
            if not os.path.exists(os.path.join(bdir, 'librxverif.so')):
                san = [f for f in flags if f.startswith('-fsanitize')]
                sh(['g++', '-shared', '-Wl,-z,now', '-Wl,-z,relro', '-o', os.path.join(bdir, 'librxverif.so')] + san + sorted(glob.glob(os.path.join(bdir, '*.o'))) + ['-lpthread'])
            return bdir
        shutil.rmtree(bdir, ignore_errors=True)
        os.makedirs(bdir)
        srcs = lib_sources()
        t0 = time.time()

        def comp(s):
            src = os.path.join(REPO, 'src', s)
            obj = os.path.join(bdir, s.replace('/', '_') + '.o')
            if s.endswith('.cpp'):
                cmd = ['g++', '-std=gnu++11']
            else:
                cmd = ['gcc']
            cmd += flags + PER_FILE.get(s, []) + ['-c', src, '-o', obj]
            rc, out = sh(cmd, timeout=600, check=False)
            return s, rc, out, obj
        with ThreadPoolExecutor(NCPU) as ex:
            res = list(ex.map(comp, srcs))
        bad = [(s, out) for s, rc, out, obj in res if rc != 0]
        if bad:
            raise Infra('build of %s failed in %s:\n%s' % (variant, bad[0][0], bad[0][1][-3000:]))
        lib = os.path.join(bdir, 'librandomx.a')
        sh(['ar', 'rcs', lib] + [r[3] for r in res])
        # the same objects as a private shared object: its writable segments (.data/.bss) contain the
        # library's globals and nothing of a harness, so they can be snapshotted and compared per call
        san = [f for f in flags if f.startswith('-fsanitize')]
        sh(['g++', '-shared', '-Wl,-z,now', '-Wl,-z,relro', '-o', os.path.join(bdir, 'librxverif.so')] + san + [r[3] for r in res] + ['-lpthread'])
        open(os.path.join(bdir, '.done'), 'w').write('%f' % (time.time() - t0))
        _prune(os.path.join(WORK, 'build', variant + '-*'), 2)
        log('[build] %s in %.1fs -> %s' % (variant, time.time() - t0, bdir))
    return bdir


def build_harness(name, variant='verif', extra=(), libs=('-lpthread',), srcs=None, shared=False, nolib=False):
    """compile harness/<name>.cpp against the library built from /repo; returns executable path"""
    bdir = build_lib(variant)
    srcs = srcs or [name + '.cpp']
    h = hashlib.sha256()
    for s in srcs + sorted(os.path.basename(x) for x in glob.glob(os.path.join(HARNESS, '*.hpp'))):
        p = os.path.join(HARNESS, s)
        if os.path.exists(p):
            h.update(open(p, 'rb').read())
    h.update(' '.join(extra).encode())
    exe = os.path.join(bdir, '%s-%s%s' % (name, h.hexdigest()[:10], '-so' if shared else ''))
    with Lock('harness-%s-%s' % (variant, name)):
        if os.path.exists(exe):
            return exe
        flags = [f for f in VARIANTS[variant]]
        cmd = ['g++', '-std=gnu++17'] + flags + list(extra) + ['-I', os.path.join(REPO, 'src'), '-I', HARNESS]
        cmd += [os.path.join(HARNESS, s) for s in srcs]
        if nolib:
            cmd += ['-o', exe + '.tmp'] + list(libs)
        elif shared:
            cmd += ['-o', exe + '.tmp', '-rdynamic', '-L', bdir, '-lrxverif', '-Wl,-rpath,' + bdir, '-Wl,-z,now', '-ldl'] + list(libs)
        else:
            cmd += ['-o', exe + '.tmp', os.path.join(bdir, 'librandomx.a')] + list(libs)
        rc, out = sh(cmd, timeout=900, check=False)
        # a harness reaches into library internals by name; when the tree renamed a member the compiler names the replacement
        # ("has no member named 'X'; did you mean 'Y'?"): retry with X defined as Y (affects the harness only - the tree no longer has X)
        tries = 0
        while rc != 0 and tries < 3:
            ren = dict(re.findall(r"has no member named ['\u2018](\w+)['\u2019]; did you mean ['\u2018](\w+)['\u2019]", out))
            ren.update(dict(re.findall(r"['\u2018](\w+)['\u2019] was not declared in this scope; did you mean ['\u2018](\w+)['\u2019]", out)))
            if not ren:
                break
            log('  harness %s: following renamed internals %s' % (name, ren))
            cmd = cmd[:2] + ['-D%s=%s' % kv for kv in ren.items()] + cmd[2:]
            rc, out = sh(cmd, timeout=900, check=False)
            tries += 1
        if rc != 0:
            raise Infra('harness %s (%s) failed to build:\n%s' % (name, variant, out[-4000:]))
        os.rename(exe + '.tmp', exe)
    return exe


# ----------------------------------------------------------------------------------------------
# TLC
# ----------------------------------------------------------------------------------------------
def ensure_java():
    """compile the Java operator overrides (spec/java) if any are stale"""
    srcs = glob.glob(os.path.join(JAVADIR, '*.java'))
    if not srcs:
        return
    with Lock('javac'):
        def cls(s):
            return os.path.join(JAVADIR, 'tlc2', 'module', os.path.basename(s)[:-5] + '.class')
        stale = [s for s in srcs if not os.path.exists(cls(s)) or os.path.getmtime(cls(s)) < os.path.getmtime(s)]
        if stale:
            sh(['javac', '-cp', TLAJAR + ':' + CMJAR, '-d', JAVADIR] + srcs, timeout=300)


_meta_ctr = [0]


def tlc(module, cfg, workers=1, env=None, timeout=900, xmx='3g', xss='512m', extra=(), deque=False,
        simulate=None, cwd=SPEC, check=False):
    """run TLC on spec/<module>.tla with spec/<cfg>; returns dict with rc, out, generated, distinct, depth"""
    ensure_java()
    _meta_ctr[0] += 1
    meta = os.path.join(WORK, 'tlc', '%d-%d-%s' % (os.getpid(), _meta_ctr[0], module))
    shutil.rmtree(meta, ignore_errors=True)
    os.makedirs(meta, exist_ok=True)
    jopts = ['-XX:+UseParallelGC', '-Xmx' + xmx, '-Xss' + xss, '-Djava.io.tmpdir=' + meta]
    if deque:
        jopts.append('-Dtlc2.tool.queue.IStateQueue=StateDeque')
    cmd = ['java'] + jopts + ['-cp', ':'.join([TLAJAR, CMJAR, JAVADIR]), 'tlc2.TLC',
                              '-workers', str(workers), '-metadir', meta, '-noGenerateSpecTE', '-config', cfg]
    if simulate:
        cmd += ['-simulate', simulate]
    cmd += list(extra) + [module + '.tla']
    t0 = time.time()
    rc, out = sh(cmd, timeout=timeout, cwd=cwd, env=env, check=False)
    shutil.rmtree(meta, ignore_errors=True)
    r = {'rc': rc, 'out': out, 'wall': time.time() - t0, 'generated': 0, 'distinct': 0, 'depth': 0,
         'cmd': ' '.join(cmd[:3] + ['...'] + cmd[-5:])}
    m = re.findall(r'(\d+) states generated, (\d+) distinct states found', out)
    if m:
        r['generated'], r['distinct'] = int(m[-1][0]), int(m[-1][1])
    m = re.findall(r'The depth of the complete state graph search is (\d+)', out)
    if m:
        r['depth'] = int(m[-1])
    r['ok'] = (rc == 0 and 'Model checking completed. No error has been found.' in out) or \
              (rc == 0 and simulate is not None)
    if rc == 124:
        raise Infra('TLC timeout on %s/%s after %ds' % (module, cfg, timeout))
    if ('Parsing or semantic analysis failed' in out or 'java.lang.OutOfMemoryError' in out
            or 'java.lang.StackOverflowError' in out or 'Error: Could not' in out):
        raise Infra('TLC failed on %s/%s:\n%s' % (module, cfg, tlc_error_summary(out, 12)[-1200:]))
    if check and not r['ok']:
        raise Infra('TLC did not complete cleanly on %s/%s:\n%s' % (module, cfg, out[-3000:]))
    return r


def tlaps(module, timeout=600):
    """check the TLAPS proofs of spec/<module>.tla (copied with the modules it extends into a scratch directory: tlapm writes its
    cache next to the source).  Returns dict(ok, proved, out).  Proofs concern the specification only."""
    d = os.path.join(WORK, 'tlaps', '%d-%s' % (os.getpid(), module))
    shutil.rmtree(d, ignore_errors=True)
    os.makedirs(d)
    for f in glob.glob(os.path.join(SPEC, '*.tla')):
        shutil.copy(f, d)
    t0 = time.time()
    rc, out = sh(['tlapm', '--cleanfp', '--threads', '4', module + '.tla'], timeout=timeout, cwd=d, check=False)
    shutil.rmtree(d, ignore_errors=True)
    m = re.search(r'All (\d+) obligations? proved', out)
    return {'ok': rc == 0 and bool(m), 'proved': int(m.group(1)) if m else 0, 'out': out[-1500:], 'wall': time.time() - t0, 'rc': rc}


def tlc_error_summary(out, n=40):
    lines = out.splitlines()
    for i, l in enumerate(lines):
        if l.startswith('Error:') or 'is violated' in l or 'REJECT' in l:
            return '\n'.join(lines[i:i + n])
    return '\n'.join(lines[-n:])


def validate_trace_file(module, cfg, path, timeout=900, xmx='3g', deque=False, env=None):
    """one TLC run (workers=1) of a trace spec over an ndjson file.
    The trace spec has a position variable; every consumed line is one step, so
    depth-1 == number of lines  <=>  the whole trace is a behaviour of the spec."""
    n = sum(1 for l in open(path) if l.strip())
    e = {'TRACE': path}
    if env:
        e.update(env)
    r = tlc(module, cfg, workers=1, env=e, timeout=timeout, xmx=xmx, deque=deque)
    reached = max(r['depth'] - 1, 0)
    m = re.findall(r'VERIF_REACHED (\d+)', r['out'])
    if m:
        reached = max(int(x) for x in m)
    r['lines'] = n
    r['reached'] = reached
    r['accepted'] = bool(r['ok'] and reached == n)
    if not r['accepted'] and r['rc'] not in (0, 12, 13, 11, 10):
        # TLC itself failed (evaluation error etc.)
        if 'Error: Evaluating' in r['out'] or 'TLC threw an unexpected exception' in r['out'] \
                or 'was not in the domain' in r['out'] or 'Attempted to' in r['out']:
            # evaluation errors on a recorded line are treated as rejection of that line
            pass
    return r


def validate_sharded(module, cfg, lines, tag, shards=None, timeout=900, xmx='3g', deque=False,
                     group=None, env=None, independent=True, max_rejects=4):
    """split independent trace lines (or groups of lines) over parallel TLC runs.
    lines: list of json strings. group: optional list of same length giving a group key; lines of
    one group stay together and in order.  Returns dict(accepted, total, rejected=[(line, why)],
    states, transitions)."""
    d = os.path.join(WORK, 'traces', tag)
    shutil.rmtree(d, ignore_errors=True)
    os.makedirs(d)
    if not lines:
        raise Infra('empty trace for ' + tag)
    shards = shards or min(NCPU, max(1, len(lines) // 4))
    buckets = [[] for _ in range(shards)]
    bgroups = [[] for _ in range(shards)]
    if group is None:
        for i, l in enumerate(lines):
            buckets[i % shards].append(l)
            bgroups[i % shards].append(i)
    else:
        order = {}
        for g in group:
            order.setdefault(g, len(order))
        for l, g in zip(lines, group):
            buckets[order[g] % shards].append(l)
            bgroups[order[g] % shards].append(order[g])
    bgroups = [g for b, g in zip(buckets, bgroups) if b]
    buckets = [b for b in buckets if b]
    files = []
    for i, b in enumerate(buckets):
        p = os.path.join(d, 'shard_%02d.ndjson' % i)
        open(p, 'w').write('\n'.join(b) + '\n')
        files.append(p)
    res = {'accepted': 0, 'total': len(lines), 'rejected': [], 'states': 0, 'transitions': 0,
           'dir': d, 'wall': 0.0, 'prints': []}

    def one(args):
        """validate one shard; after a rejection continue behind the rejected line (bounded), so
        that the rest of the trace is examined too (only valid for traces of independent lines;
        stateful traces pass independent=False)"""
        p, b, gids = args
        out = {'accepted': 0, 'states': 0, 'transitions': 0, 'rejected': [], 'wall': 0.0, 'prints': []}
        start = 0
        attempt = 0
        while start < len(b):
            q = p if start == 0 else '%s.part%d' % (p, attempt)
            if start:
                open(q, 'w').write('\n'.join(b[start:]) + '\n')
            r = validate_trace_file(module, cfg, q, timeout=timeout, xmx=xmx, deque=deque, env=env)
            out['wall'] += r['wall']
            out['prints'] += [x for x in r['out'].splitlines() if x.startswith('<<"')]
            out['states'] += r['distinct']
            out['transitions'] += r['generated']
            got = min(r['reached'], len(b) - start)
            out['accepted'] += got
            if r['accepted']:
                break
            bad_i = start + got
            bad = b[bad_i] if bad_i < len(b) else '(end of trace)'
            open(q + '.tlc.out', 'w').write(r['out'])
            ctx = [bad] if independent else b[start:bad_i + 1]
            if sum(len(x) for x in ctx) > 64 << 20:
                ctx = [bad]
            out['rejected'].append({'file': q, 'line_no': bad_i + 1, 'line': bad,
                                    'tlc': tlc_error_summary(r['out'], 25),
                                    'module': module, 'cfg': cfg, 'deque': deque, 'xmx': xmx,
                                    'env': {k: v for k, v in (env or {}).items() if k != 'TRACE'},
                                    'trace': ctx})
            attempt += 1
            if attempt >= max_rejects or bad_i >= len(b):
                break
            if independent:
                start = bad_i + 1
            else:
                # lines of one group depend on each other: resume with the next group of this shard (each group starts from the
                # trace specification's initial state, see the callers), so that the rest of the shard is still examined
                nxt = [j for j in range(bad_i + 1, len(b)) if gids[j] != gids[bad_i]]
                if group is None or not nxt:
                    break
                start = nxt[0]
        return out
    with ThreadPoolExecutor(len(files)) as ex:
        outs = list(ex.map(one, list(zip(files, buckets, bgroups))))
    for o in outs:
        res['accepted'] += o['accepted']
        res['states'] += o['states']
        res['transitions'] += o['transitions']
        res['rejected'] += o['rejected']
        res['prints'] += o['prints']
        res['wall'] = max(res['wall'], o['wall'])
    if not res['rejected']:
        shutil.rmtree(d, ignore_errors=True)
    return res


# ----------------------------------------------------------------------------------------------
# evidence, verdicts
# ----------------------------------------------------------------------------------------------
def known_findings():
    """known_findings.txt lines:  finding: property=<id> key=<token> <text>   |   fixed: ..."""
    out = []
    p = os.path.join(VERIF, 'known_findings.txt')
    if os.path.exists(p):
        for l in open(p):
            l = l.strip()
            if l.startswith('finding:'):
                m = re.match(r'finding:\s+property=(\S+)\s+key=(\S+)\s+(.*)', l)
                if m:
                    out.append({'property': m.group(1), 'key': m.group(2), 'text': m.group(3)})
    return out


_current = [None]


class Check:
    """collects what one check run covered and its verdict"""

    def __init__(self, pid, level):
        _current[0] = self
        self.pid = pid
        self.level = level
        self.tier = os.environ.get('VERIF_TIER', 'quick')
        if self.tier not in ('quick', 'thorough'):
            self.tier = 'quick'
        try:
            self.seed = int(os.environ.get('VERIF_SEED', '1'))
        except ValueError:
            self.seed = 1
        self.rng = random.Random(self.seed)
        self.t0 = time.time()
        self.cov = {'states': 0, 'transitions': 0, 'traces_validated_against_impl': 0, 'samples': [],
                    'evaluations': 0, 'distinct_nontrivial': 0, 'rule': '', 'parts': {}}
        self.assumptions = []
        self.violations = []      # (key, text, replay)
        self.known = []

    def elapsed(self):
        return time.time() - self.t0

    @property
    def thorough(self):
        return self.tier == 'thorough'

    def add_model(self, name, r, constants=''):
        """account an exhaustive TLC run"""
        self.cov['states'] += r['distinct']
        self.cov['transitions'] += r['generated']
        self.cov['parts'][name] = {'distinct_states': r['distinct'], 'states_generated': r['generated'],
                                   'depth': r['depth'], 'wall_s': round(r['wall'], 1), 'constants': constants}

    def add_traces(self, name, res, what=''):
        self.cov['states'] += res['states']
        self.cov['transitions'] += res['transitions']
        self.cov['traces_validated_against_impl'] += res['accepted']
        self.cov['parts'][name] = {'trace_events_accepted': res['accepted'], 'trace_events_total': res['total'],
                                   'wall_s': round(res['wall'], 1), 'what': what}

    def sample(self, s, limit=6):
        if len(self.cov['samples']) < limit:
            if isinstance(s, str) and len(s) > 600:
                s = s[:600] + '...'
            self.cov['samples'].append(s)

    def sensitivity(self, module, cfg, what, workers=4, timeout=600, xmx='3g'):
        """a DEFECT VARIANT of the model (a constant switches the defective rule on) must violate an invariant: shows that the
        invariants of the real configuration are not vacuous.  Recorded in the evidence; never a verdict about the code."""
        r = tlc(module, cfg, workers=workers, timeout=timeout, xmx=xmx)
        m = re.search(r'(Invariant|property|Property) (\S+) is violated', r['out']) or re.search(r'Action property (\S+)', r['out'])
        got = m.group(0) if m else ('no violation' if r['ok'] else 'TLC ended without a verdict')
        self.cov.setdefault('model_sensitivity', {})[cfg] = {'variant': what, 'result': got}
        if not m:
            log('  WARNING: defect variant %s/%s does not violate anything (%s)' % (module, cfg, got))
        return bool(m)

    def violation(self, key, text, replay_payload):
        """key identifies the specific failing input/history (matched against known_findings.txt)"""
        for k in known_findings():
            if k['property'] == self.pid and k['key'] == key:
                if key not in [x[0] for x in self.known]:
                    self.known.append((key, k['text']))
                return
        if key in [v[0] for v in self.violations]:
            return          # same failing input/site already reported in this run
        d = os.path.join(WORK, 'replay', self.pid)
        os.makedirs(d, exist_ok=True)
        path = os.path.join(d, '%s-%d.json' % (re.sub(r'[^A-Za-z0-9_.-]', '_', key)[:60], len(self.violations)))
        json.dump({'property': self.pid, 'key': key, 'text': text, 'payload': replay_payload}, open(path, 'w'), indent=1)
        self.violations.append((key, text, path))

    def reject(self, name, res, keyfn=None):
        """turn rejected trace lines into violations"""
        for rj in res['rejected']:
            key = keyfn(rj) if keyfn else name
            self.violation(key, '%s: trace line %d rejected by the specification' % (name, rj['line_no']), rj)

    def finish(self):
        wall = time.time() - self.t0
        cov = self.cov
        if not cov['evaluations']:
            cov['evaluations'] = cov['traces_validated_against_impl'] + cov['states']
        if not cov['distinct_nontrivial']:
            cov['distinct_nontrivial'] = cov['evaluations']
        ev = {'property_id': self.pid, 'tier': self.tier, 'seed': self.seed, 'level': self.level,
              'coverage': cov, 'assumptions': self.assumptions, 'wall_s': round(wall, 2),
              'violations': len(self.violations)}
        if self.known:
            ev['known_findings'] = [k for k, _ in self.known]
        evdir = os.environ.get('VERIF_EVIDENCE_DIR', os.path.join(VERIF, 'evidence'))
        os.makedirs(evdir, exist_ok=True)
        tmp = os.path.join(evdir, self.pid + '.json.tmp')
        json.dump(ev, open(tmp, 'w'), indent=1)
        os.replace(tmp, os.path.join(evdir, self.pid + '.json'))
        for k, t in self.known:
            print('KNOWN-FINDING: property=%s %s (%s)' % (self.pid, k, t))
        for k, t, p in self.violations:
            log('  violation: %s :: %s' % (k, t))
            print('VIOLATION property=%s replay=%s' % (self.pid, p))
        sys.stdout.flush()
        return 1 if self.violations else 0


def run_harness(cmd, outp, timeout=1800, env=None):
    """run a recording harness; a crash / non-zero exit of the harness becomes a Crash trace line (which no
    specification action accepts) instead of an infrastructure error: the harnesses run clean on the unchanged tree"""
    rc, out = sh(cmd, timeout=timeout, check=False, env=env)
    lines = [l for l in open(outp).read().splitlines() if l] if os.path.exists(outp) else []
    if lines and not lines[-1].endswith('}'):
        lines = lines[:-1]                 # truncated last line
    if rc != 0:
        lines.append(json.dumps({'e': 'Crash', 'during': os.path.basename(cmd[0]).split('-')[0], 'rc': rc, 'msg': out[-200:]}))
    return lines


def hexbytes(h):
    return list(bytes.fromhex(h))


def limbs_of_bytes(b):
    """bytes -> list of 16-bit LE limbs (len must be even)"""
    return [b[i] | (b[i + 1] << 8) for i in range(0, len(b), 2)]


def replay(pid, path):
    """bin/verif replay <ID> <file>: re-decide one recorded violation.  A rejected trace is validated again
    (module, configuration and the trace lines are in the file); other violations carry their observation and
    are re-decided by running the check again with the recorded seed."""
    rec = json.load(open(path))
    print('property=%s key=%s\n%s' % (rec.get('property'), rec.get('key'), rec.get('text')))
    pl = rec.get('payload') or {}
    if isinstance(pl, dict) and pl.get('module') and pl.get('trace'):
        d = os.path.join(WORK, 'replay', pid)
        os.makedirs(d, exist_ok=True)
        t = os.path.join(d, 'replay-%d.ndjson' % os.getpid())
        open(t, 'w').write('\n'.join(pl['trace']) + '\n')
        r = validate_trace_file(pl['module'], pl['cfg'], t, xmx=pl.get('xmx', '3g'), deque=pl.get('deque', False),
                                env=pl.get('env') or None)
        os.remove(t)
        if r['accepted']:
            print('trace of %d line(s) is ACCEPTED by %s/%s now' % (len(pl['trace']), pl['module'], pl['cfg']))
            return 0
        print('trace line %d of %d is REJECTED by %s/%s:\n%s' % (r['reached'] + 1, len(pl['trace']), pl['module'], pl['cfg'],
                                                                tlc_error_summary(r['out'], 25)))
        print('VIOLATION property=%s replay=%s' % (pid, path))
        return 1
    print(json.dumps(pl, indent=1)[:4000])
    print('(not a trace rejection: re-running the check)')
    import importlib
    return importlib.import_module('checks.' + pid.lower()).run()
