--------------------------------- MODULE Aes ---------------------------------
(***************************************************************************)
(* The AES-based custom functions of RandomX (specs.md chapter 3):         *)
(* single FIPS-197 encryption / decryption rounds in the AESENC / AESDEC   *)
(* convention, AesGenerator1R, AesGenerator4R, AesHash1R and the combined  *)
(* fingerprint-and-refill step.  The S-box is DERIVED here from its        *)
(* definition (inverse in GF(2^8) followed by the affine map), nothing is  *)
(* copied from the implementation's tables.  A 16-byte AES state is a      *)
(* sequence of 16 bytes in memory order (byte 4c+r = row r, column c); a   *)
(* 64-byte generator/hash state is 4 such "columns" (specs.md wording).    *)
(***************************************************************************)
EXTENDS Blake2b, AesTables

XTime(a) == ((2 * a) % 256) ^^ (IF a >= 128 THEN 27 ELSE 0)      \* multiplication by x modulo x^8+x^4+x^3+x+1
Byte == 0..255
Mul2 == [a \in Byte |-> Mul2T[a + 1]]
Mul4 == [a \in Byte |-> Mul2[Mul2[a]]]
Mul8 == [a \in Byte |-> Mul2[Mul4[a]]]
\* a * x^i, i = 0..7, as plain tables (TLC evaluates constant tables once)
XP4 == [a \in Byte |-> Mul2[Mul8[a]]]
XP5 == [a \in Byte |-> Mul4[Mul8[a]]]
XP6 == [a \in Byte |-> Mul8[Mul8[a]]]
XP7 == [a \in Byte |-> Mul2[XP6[a]]]
Bit(b, i) == (b \div (2^i)) % 2
\* general product in GF(2^8): sum over the bits of b of a * x^i
GMul(a, b) ==
  ((((IF Bit(b, 0) = 1 THEN a ELSE 0) ^^ (IF Bit(b, 1) = 1 THEN Mul2[a] ELSE 0)) ^^
    ((IF Bit(b, 2) = 1 THEN Mul4[a] ELSE 0) ^^ (IF Bit(b, 3) = 1 THEN Mul8[a] ELSE 0))) ^^
   (((IF Bit(b, 4) = 1 THEN XP4[a] ELSE 0) ^^ (IF Bit(b, 5) = 1 THEN XP5[a] ELSE 0)) ^^
    ((IF Bit(b, 6) = 1 THEN XP6[a] ELSE 0) ^^ (IF Bit(b, 7) = 1 THEN XP7[a] ELSE 0))))
\* multiplicative inverse as a^254 (0 maps to 0)
GInv(a) ==
  LET a2 == GMul(a, a)     a4 == GMul(a2, a2)    a8 == GMul(a4, a4)
      a16 == GMul(a8, a8)  a32 == GMul(a16, a16) a64 == GMul(a32, a32)
      a128 == GMul(a64, a64)
  IN  GMul(a128, GMul(a64, GMul(a32, GMul(a16, GMul(a8, GMul(a4, a2))))))
RotL8(a, n) == ((a * (2^n)) % 256) + (a \div (2^(8 - n)))
Affine(a) == ((((a ^^ RotL8(a, 1)) ^^ RotL8(a, 2)) ^^ RotL8(a, 3)) ^^ RotL8(a, 4)) ^^ 99
SBoxDef(a) == Affine(GInv(a))                    \* FIPS-197 5.1.1
SBox == [a \in Byte |-> SBoxT[a + 1]]              \* literal table, checked against SBoxDef in MCAes
InvSBox == [b \in Byte |-> InvSBoxT[b + 1]]        \* checked in MCAes: InvSBox[SBoxDef(a)] = a

Mul3 == [a \in Byte |-> Mul3T[a + 1]]
Mul9 == [a \in Byte |-> Mul9T[a + 1]]
Mul11 == [a \in Byte |-> Mul11T[a + 1]]
Mul13 == [a \in Byte |-> Mul13T[a + 1]]
Mul14 == [a \in Byte |-> Mul14T[a + 1]]
Mul1  == [a \in Byte |-> a]

\* the literal tables agree with the field arithmetic (checked exhaustively by MCAes)
TablesCorrect ==
  \A a \in Byte : /\ SBoxT[a + 1] = SBoxDef(a)
                   /\ InvSBoxT[SBoxDef(a) + 1] = a
                   /\ Mul2T[a + 1] = XTime(a)
                   /\ Mul3T[a + 1] = GMul(a, 3)  /\ Mul9T[a + 1] = GMul(a, 9)
                   /\ Mul11T[a + 1] = GMul(a, 11) /\ Mul13T[a + 1] = GMul(a, 13)
                   /\ Mul14T[a + 1] = GMul(a, 14)

\* MixColumns / InvMixColumns matrices (row r, column c), as multiplication tables
MixM    == << <<Mul2, Mul3, Mul1, Mul1>>, <<Mul1, Mul2, Mul3, Mul1>>,
              <<Mul1, Mul1, Mul2, Mul3>>, <<Mul3, Mul1, Mul1, Mul2>> >>
InvMixM == << <<Mul14, Mul11, Mul13, Mul9>>, <<Mul9, Mul14, Mul11, Mul13>>,
              <<Mul13, Mul9, Mul14, Mul11>>, <<Mul11, Mul13, Mul9, Mul14>> >>

\* s is a 16-byte state, positions 1..16; byte at row r, column c is s[4c + r + 1]
At(s, r, c) == s[4 * c + r + 1]
ShiftRows(s)    == [i \in 1..16 |-> LET r == (i - 1) % 4  c == (i - 1) \div 4 IN At(s, r, (c + r) % 4)]
InvShiftRows(s) == [i \in 1..16 |-> LET r == (i - 1) % 4  c == (i - 1) \div 4 IN At(s, r, (c + 4 - r) % 4)]
SubBytes(s)     == [i \in 1..16 |-> SBox[s[i]]]
InvSubBytes(s)  == [i \in 1..16 |-> InvSBox[s[i]]]
MixWith(M, s)   == [i \in 1..16 |-> LET r == (i - 1) % 4  c == (i - 1) \div 4
                                    IN  (M[r + 1][1][At(s, 0, c)] ^^ M[r + 1][2][At(s, 1, c)]) ^^
                                        (M[r + 1][3][At(s, 2, c)] ^^ M[r + 1][4][At(s, 3, c)])]
XorB(a, b) == [i \in 1..Len(a) |-> a[i] ^^ b[i]]

\* one AES encryption round (ShiftRows, SubBytes, MixColumns, AddRoundKey) = x86 AESENC
Enc(s, k) == TLCEval(XorB(MixWith(MixM, TLCEval(SubBytes(ShiftRows(s)))), k))
\* one AES decryption round (InvShiftRows, InvSubBytes, InvMixColumns, AddRoundKey) = x86 AESDEC
Dec(s, k) == TLCEval(XorB(MixWith(InvMixM, TLCEval(InvSubBytes(InvShiftRows(s)))), k))

\* inverses of the two rounds with respect to the state (used to walk a fingerprint chain backwards)
EncInv(o, k) == TLCEval(InvShiftRows(TLCEval(InvSubBytes(MixWith(InvMixM, XorB(o, k))))))
DecInv(o, k) == TLCEval(ShiftRows(TLCEval(SubBytes(MixWith(MixM, XorB(o, k))))))

(***************************************************************************)
(* T-table view used by the software implementation: table i, entry x is   *)
(* the contribution of a byte x sitting in row i to its output column.     *)
(***************************************************************************)
EncT(i, x) == [r \in 1..4 |-> MixM[r][i + 1][SBox[x]]]
DecT(i, x) == [r \in 1..4 |-> InvMixM[r][i + 1][InvSBox[x]]]

-----------------------------------------------------------------------------
(* keys and initial state: literal values printed in specs.md chapter 3 *)
Gen1Keys == << <<83, 165, 172, 109, 9, 102, 113, 98, 43, 85, 181, 219, 23, 73, 244, 180>>,
              <<7, 175, 124, 109, 13, 113, 106, 132, 120, 211, 37, 23, 78, 220, 161, 13>>,
              <<241, 98, 18, 63, 198, 126, 148, 159, 79, 121, 192, 244, 69, 227, 32, 62>>,
              <<53, 129, 239, 106, 124, 49, 186, 177, 136, 76, 49, 22, 84, 145, 22, 73>> >>
Gen4Keys == << <<221, 170, 33, 100, 219, 61, 131, 209, 43, 109, 84, 47, 63, 210, 229, 153>>,
              <<80, 52, 14, 178, 85, 63, 145, 182, 83, 157, 247, 6, 229, 205, 223, 165>>,
              <<4, 217, 62, 92, 175, 123, 94, 81, 159, 103, 164, 10, 191, 2, 28, 23>>,
              <<99, 55, 98, 133, 8, 93, 143, 231, 133, 55, 103, 205, 145, 210, 222, 216>>,
              <<115, 111, 130, 181, 166, 167, 214, 227, 109, 139, 81, 61, 180, 255, 158, 34>>,
              <<243, 107, 86, 199, 217, 179, 16, 156, 78, 77, 2, 233, 210, 183, 114, 178>>,
              <<231, 201, 115, 242, 139, 163, 101, 247, 10, 102, 169, 43, 167, 239, 59, 246>>,
              <<9, 214, 124, 122, 222, 57, 88, 145, 253, 209, 6, 12, 45, 118, 176, 192>> >>
HashInitState == << <<13, 44, 181, 146, 222, 86, 168, 159, 71, 219, 130, 204, 173, 58, 152, 215>>,
                   <<110, 153, 141, 51, 152, 183, 199, 21, 90, 18, 158, 245, 87, 128, 231, 172>>,
                   <<23, 0, 119, 106, 208, 199, 98, 174, 107, 80, 121, 80, 228, 124, 160, 232>>,
                   <<12, 36, 10, 99, 141, 130, 173, 7, 5, 0, 161, 121, 72, 73, 153, 126>> >>
HashXKeys == << <<137, 131, 250, 246, 159, 148, 36, 139, 191, 86, 220, 144, 1, 2, 137, 6>>,
               <<209, 99, 178, 97, 60, 224, 244, 81, 198, 67, 16, 238, 155, 249, 24, 237>> >>

\* ... and the strings they were generated from (ASCII)
StrGen1Keys   == <<82, 97, 110, 100, 111, 109, 88, 32, 65, 101, 115, 71, 101, 110, 101, 114, 97, 116, 111, 114, 49, 82, 32, 107, 101, 121, 115>>   \* "RandomX AesGenerator1R keys"
StrGen4Keys03 == <<82, 97, 110, 100, 111, 109, 88, 32, 65, 101, 115, 71, 101, 110, 101, 114, 97, 116, 111, 114, 52, 82, 32, 107, 101, 121, 115, 32, 48, 45, 51>>   \* "RandomX AesGenerator4R keys 0-3"
StrGen4Keys47 == <<82, 97, 110, 100, 111, 109, 88, 32, 65, 101, 115, 71, 101, 110, 101, 114, 97, 116, 111, 114, 52, 82, 32, 107, 101, 121, 115, 32, 52, 45, 55>>   \* "RandomX AesGenerator4R keys 4-7"
StrHashState  == <<82, 97, 110, 100, 111, 109, 88, 32, 65, 101, 115, 72, 97, 115, 104, 49, 82, 32, 115, 116, 97, 116, 101>>   \* "RandomX AesHash1R state"
StrHashXKeys  == <<82, 97, 110, 100, 111, 109, 88, 32, 65, 101, 115, 72, 97, 115, 104, 49, 82, 32, 120, 107, 101, 121, 115>>   \* "RandomX AesHash1R xkeys"

Cols(b64) == [c \in 1..(Len(b64) \div 16) |-> SubSeq(b64, 16 * c - 15, 16 * c)]
Flat(cols) == FoldLeft(LAMBDA a, c : a \o c, <<>>, cols)

ConstantsFromStrings ==
  /\ Cols(Hash512(StrGen1Keys)) = Gen1Keys
  /\ Cols(Hash512(StrGen4Keys03)) \o Cols(Hash512(StrGen4Keys47)) = Gen4Keys
  /\ Cols(Hash512(StrHashState)) = HashInitState
  /\ Cols(Hash256(StrHashXKeys)) = HashXKeys

-----------------------------------------------------------------------------
(* 3.2 AesGenerator1R: columns 0,2 decrypted, 1,3 encrypted; st = 4 columns *)
Gen1Step(st) == << Dec(st[1], Gen1Keys[1]), Enc(st[2], Gen1Keys[2]),
                   Dec(st[3], Gen1Keys[3]), Enc(st[4], Gen1Keys[4]) >>
\* n output blocks: <<output bytes, final state (4 columns)>>
Gen1(state64, n) ==
  FoldLeft(LAMBDA a, i : LET s == Gen1Step(a[2]) IN <<a[1] \o Flat(s), s>>,
           << <<>>, Cols(state64) >>, Range0(n))

(* 3.3 AesGenerator4R: four rounds; columns 0,1 use keys 0-3, columns 2,3 keys 4-7 *)
Gen4Step(st) ==
  FoldLeft(LAMBDA s, j : << Dec(s[1], Gen4Keys[j + 1]), Enc(s[2], Gen4Keys[j + 1]),
                            Dec(s[3], Gen4Keys[j + 5]), Enc(s[4], Gen4Keys[j + 5]) >>,
           st, Range0(4))
Gen4(state64, n) ==
  FoldLeft(LAMBDA a, i : LET s == Gen4Step(a[2]) IN <<a[1] \o Flat(s), s>>,
           << <<>>, Cols(state64) >>, Range0(n))

(* 3.4 AesHash1R: columns 0,2 encrypted, 1,3 decrypted with the input block as keys *)
HashAbsorb(st, block64) ==
  LET k == Cols(block64)
  IN  << Enc(st[1], k[1]), Dec(st[2], k[2]), Enc(st[3], k[3]), Dec(st[4], k[4]) >>
HashFinish(st) ==
  FoldLeft(LAMBDA s, j : << Enc(s[1], HashXKeys[j + 1]), Dec(s[2], HashXKeys[j + 1]),
                            Enc(s[3], HashXKeys[j + 1]), Dec(s[4], HashXKeys[j + 1]) >>,
           st, Range0(2))
HashFinishInv(st) ==
  FoldLeft(LAMBDA s, j : << EncInv(s[1], HashXKeys[2 - j]), DecInv(s[2], HashXKeys[2 - j]),
                            EncInv(s[3], HashXKeys[2 - j]), DecInv(s[4], HashXKeys[2 - j]) >>,
           st, Range0(2))
Hash1RState(input, st0) ==
  FoldLeft(LAMBDA s, i : HashAbsorb(s, SubSeq(input, 64 * i + 1, 64 * i + 64)), st0,
           Range0(Len(input) \div 64))
Hash1R(input) == Flat(HashFinish(Hash1RState(input, HashInitState)))

(* fingerprint the buffer and refill it from a new seed, as two independent functions *)
HashAndFill(buf, seed64) ==
  LET g == Gen1(seed64, Len(buf) \div 64)
  IN  [hash |-> Hash1R(buf), buf |-> g[1], state |-> Flat(g[2])]
=============================================================================
