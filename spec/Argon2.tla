--------------------------------- MODULE Argon2 ---------------------------------
(***************************************************************************)
(* Argon2d version 0x13 "memory fill" with one lane (specs.md 7.1), as an  *)
(* executable definition: initial hash H0, first two blocks through the    *)
(* variable-length hash H', reference-block index mapping, the BlaMka      *)
(* compression G, and the segment schedule (passes x 4 slices).            *)
(* The finalisation of Argon2 is omitted, the result is the memory array.  *)
(* A block is 128 words.                                                   *)
(***************************************************************************)
EXTENDS Blake2b

SyncPoints == 4
\* fBlaMka(x, y) = x + y + 2 * lo32(x) * lo32(y)
FBlaMka(x, y) == LET xy == WMul(<<x[1], x[2], 0, 0>>, <<y[1], y[2], 0, 0>>)
                 IN  WAdd(WAdd(x, y), WShl(xy, 1))
GB(v, a, b, c, d) ==
  LET a1 == FBlaMka(v[a], v[b])
      d1 == WRotR(WXor(v[d], a1), 32)
      c1 == FBlaMka(v[c], d1)
      b1 == WRotR(WXor(v[b], c1), 24)
      a2 == FBlaMka(a1, b1)
      d2 == WRotR(WXor(d1, a2), 16)
      c2 == FBlaMka(c1, d2)
      b2 == WRotR(WXor(b1, c2), 63)
  IN  [v EXCEPT ![a] = a2, ![b] = b2, ![c] = c2, ![d] = d2]
\* the Blake2b round without message on 16 words
RoundNoMsg(v) ==
  LET v1 == GB(v, 1, 5, 9, 13)    v2 == GB(v1, 2, 6, 10, 14)   v3 == GB(v2, 3, 7, 11, 15)   v4 == GB(v3, 4, 8, 12, 16)
      v5 == GB(v4, 1, 6, 11, 16)  v6 == GB(v5, 2, 7, 12, 13)   v7 == GB(v6, 3, 8, 9, 14)
  IN  GB(v7, 4, 5, 10, 15)
\* apply the round to the 16 words of block b at the (1-based) positions idx, in place
ApplyAt(b, idx) == LET r == TLCEval(RoundNoMsg(TLCEval([k \in 1..16 |-> b[idx[k]]])))
                   IN  [j \in 1..128 |-> IF \E k \in 1..16 : idx[k] = j THEN r[CHOOSE k \in 1..16 : idx[k] = j] ELSE b[j]]
ColIdx(i) == [k \in 1..16 |-> 16 * i + k]                              \* words 16i .. 16i+15
RowIdx(i) == [k \in 1..16 |-> 2 * i + 16 * ((k - 1) \div 2) + ((k - 1) % 2) + 1]  \* 2i, 2i+1, 2i+16, 2i+17, ...
XorBlock(a, b) == [j \in 1..128 |-> WXor(a[j], b[j])]
\* compression: new = G(prev xor ref) [xor old]
FillBlock(prev, ref, old, withXor) ==
  LET r0 == TLCEval(XorBlock(ref, prev))
      tmp == IF withXor THEN TLCEval(XorBlock(r0, old)) ELSE r0
      r1 == FoldLeft(LAMBDA b, i : TLCEval(ApplyAt(b, ColIdx(i))), r0, Range0(8))
      r2 == FoldLeft(LAMBDA b, i : TLCEval(ApplyAt(b, RowIdx(i))), r1, Range0(8))
  IN  TLCEval(XorBlock(tmp, r2))

(***************************************************************************)
(* index mapping (one lane, so the reference lane is always the own lane): *)
(* area = number of blocks that may be referenced, J1 = low 32 bits of the *)
(* first word of the previous block.                                       *)
(***************************************************************************)
RefArea(pass, slice, index, segLen, laneLen) ==
  IF pass = 0 THEN (IF slice = 0 THEN index - 1 ELSE slice * segLen + index - 1)
  ELSE laneLen - segLen + index - 1
\* 64-bit arithmetic on small naturals: x = J1^2 >> 32 ; rel = area - 1 - (area * x >> 32), with J1 < 2^32 as two limbs
IndexAlpha(pass, slice, index, j1, segLen, laneLen) ==
  LET area == RefArea(pass, slice, index, segLen, laneLen)
      J == <<j1[1], j1[2], 0, 0>>
      x == WShr(WMul(J, J), 32)                            \* < 2^32
      y == WShr(WMul(WFromInt(area), x), 32)               \* < area
      rel == area - 1 - WToInt(y)
      start == IF pass # 0 THEN (IF slice = SyncPoints - 1 THEN 0 ELSE (slice + 1) * segLen) ELSE 0
  IN  (start + rel) % laneLen

\* H0 and the first two blocks
H0(lanes, outlen, m, t, version, type, pwd, salt) ==
  Hash512(LE32(lanes) \o LE32(outlen) \o LE32(m) \o LE32(t) \o LE32(version) \o LE32(type)
          \o LE32(Len(pwd)) \o pwd \o LE32(Len(salt)) \o salt \o LE32(0) \o LE32(0))
FirstBlock(h0, i, lane) == BytesToWords(TLCEval(HashLong(h0 \o LE32(i) \o LE32(lane), 1024)))

\* the schedule: all (pass, slice, index) in order, skipping the two pre-filled blocks
Positions(m, t) == LET segLen == m \div SyncPoints
                   IN  [k \in 1..(t * m - 2) |-> LET n == k + 1 IN     \* n = pass * m + offset, offset >= 2 in pass 0
                         [pass |-> n \div m, slice |-> (n % m) \div segLen, index |-> (n % m) % segLen, cur |-> n % m]]
\* the complete fill for m blocks, t passes
Fill(pwd, salt, m, t) ==
  LET segLen == m \div SyncPoints
      h0 == H0(1, 0, m, t, 19, 0, pwd, salt)
      b0 == TLCEval(FirstBlock(h0, 0, 0))
      b1 == TLCEval(FirstBlock(h0, 1, 0))
      mem0 == TLCEval([b \in 0..(m - 1) |-> IF b = 0 THEN b0 ELSE IF b = 1 THEN b1 ELSE <<>>])
  IN  FoldLeft(LAMBDA mem, p :
                 LET prevI == IF p.cur = 0 THEN m - 1 ELSE p.cur - 1
                     prev == mem[prevI]
                     ref == IndexAlpha(p.pass, p.slice, p.index, <<prev[1][1], prev[1][2]>>, segLen, m)
                 IN  TLCEval([mem EXCEPT ![p.cur] = FillBlock(prev, mem[ref], mem[p.cur], p.pass > 0)]),
               mem0, Positions(m, t))
=============================================================================
