------------------------------- MODULE Blake2b -------------------------------
(***************************************************************************)
(* BLAKE2b per RFC 7693 (sequential mode, no salt/personalisation), the    *)
(* variable-length extension H' used by Argon2 (blake2b_long) and the      *)
(* BlakeGenerator of RandomX (specs.md 3.5), as an executable definition.  *)
(* Messages/keys/digests are sequences of bytes.                           *)
(***************************************************************************)
EXTENDS W64

IV == << <<\hc908, \hf3bc, \he667, \h6a09>>,
         <<\ha73b, \h84ca, \hae85, \hbb67>>,
         <<\hf82b, \hfe94, \hf372, \h3c6e>>,
         <<\h36f1, \h5f1d, \hf53a, \ha54f>>,
         <<\h82d1, \hade6, \h527f, \h510e>>,
         <<\h6c1f, \h2b3e, \h688c, \h9b05>>,
         <<\hbd6b, \hfb41, \hd9ab, \h1f83>>,
         <<\h2179, \h137e, \hcd19, \h5be0>> >>

Sigma == <<
  << 0, 1, 2, 3, 4, 5, 6, 7, 8, 9, 10, 11, 12, 13, 14, 15>>,
  <<14, 10, 4, 8, 9, 15, 13, 6, 1, 12, 0, 2, 11, 7, 5, 3>>,
  <<11, 8, 12, 0, 5, 2, 15, 13, 10, 14, 3, 6, 7, 1, 9, 4>>,
  << 7, 9, 3, 1, 13, 12, 11, 14, 2, 6, 5, 10, 4, 0, 15, 8>>,
  << 9, 0, 5, 7, 2, 4, 10, 15, 14, 1, 11, 12, 6, 8, 3, 13>>,
  << 2, 12, 6, 10, 0, 11, 8, 3, 4, 13, 7, 5, 15, 14, 1, 9>>,
  <<12, 5, 1, 15, 14, 13, 4, 10, 0, 7, 6, 3, 9, 2, 8, 11>>,
  <<13, 11, 7, 14, 12, 1, 3, 9, 5, 0, 15, 4, 8, 6, 2, 10>>,
  << 6, 15, 14, 9, 11, 3, 0, 8, 12, 2, 13, 7, 1, 4, 10, 5>>,
  <<10, 2, 8, 4, 7, 6, 1, 5, 15, 11, 9, 14, 3, 12, 13, 0>> >>

\* mixing function G on the 16-word work vector v (1-based indices)
G(v, a, b, c, d, x, y) ==
  LET a1 == WAdd(WAdd(v[a], v[b]), x)
      d1 == WRotR(WXor(v[d], a1), 32)
      c1 == WAdd(v[c], d1)
      b1 == WRotR(WXor(v[b], c1), 24)
      a2 == WAdd(WAdd(a1, b1), y)
      d2 == WRotR(WXor(d1, a2), 16)
      c2 == WAdd(c1, d2)
      b2 == WRotR(WXor(b1, c2), 63)
  IN  [v EXCEPT ![a] = a2, ![b] = b2, ![c] = c2, ![d] = d2]

Round(v, m, s) ==
  LET v1 == G(v,  1, 5,  9, 13, m[s[1] + 1],  m[s[2] + 1])
      v2 == G(v1, 2, 6, 10, 14, m[s[3] + 1],  m[s[4] + 1])
      v3 == G(v2, 3, 7, 11, 15, m[s[5] + 1],  m[s[6] + 1])
      v4 == G(v3, 4, 8, 12, 16, m[s[7] + 1],  m[s[8] + 1])
      v5 == G(v4, 1, 6, 11, 16, m[s[9] + 1],  m[s[10] + 1])
      v6 == G(v5, 2, 7, 12, 13, m[s[11] + 1], m[s[12] + 1])
      v7 == G(v6, 3, 8,  9, 14, m[s[13] + 1], m[s[14] + 1])
  IN  G(v7, 4, 5, 10, 15, m[s[15] + 1], m[s[16] + 1])

Rounds(v, m) == FoldLeft(LAMBDA acc, r : Round(acc, m, Sigma[(r % 10) + 1]), v, Range0(12))

(***************************************************************************)
(* Compression F: h = 8 words, m = 16 words, t = <<t0,t1>> (words),        *)
(* last = final-block flag.                                                *)
(***************************************************************************)
Compress(h, m, t, last) ==
  LET v0 == h \o << IV[1], IV[2], IV[3], IV[4],
                    WXor(IV[5], t[1]), WXor(IV[6], t[2]),
                    IF last THEN WNot(IV[7]) ELSE IV[7], IV[8] >>
      v  == Rounds(v0, m)
  IN  TLCEval([i \in 1..8 |-> WXor(WXor(h[i], v[i]), v[i + 8])])

\* parameter block word 0: digest_length | key_length<<8 | fanout=1<<16 | depth=1<<24
InitH(outlen, keylen) ==
  [i \in 1..8 |-> IF i = 1 THEN WXor(IV[1], <<outlen + 256 * keylen, \h0101, 0, 0>>) ELSE IV[i]]

Zeros(n) == [i \in 1..n |-> 0]
PadTo(b, n) == b \o Zeros(n - Len(b))

BlockWords(bytes128) == TLCEval(BytesToWords(bytes128))

\* absorb `data` (key block already prepended): all but the last block are non-final;
\* an empty message is one all-zero final block; a message that is an exact multiple of
\* 128 bytes does NOT get an extra empty block.
NBlocks(n) == IF n = 0 THEN 1 ELSE (n + 127) \div 128
Absorb(h0, data) ==
  LET n == Len(data)
      nb == NBlocks(n)
  IN  FoldLeft(LAMBDA h, k :
                 IF k + 1 < nb
                 THEN Compress(h, BlockWords(SubSeq(data, 128 * k + 1, 128 * k + 128)),
                               <<WFromInt(128 * k + 128), W0>>, FALSE)
                 ELSE Compress(h, BlockWords(PadTo(SubSeq(data, 128 * k + 1, n), 128)),
                               <<WFromInt(n), W0>>, TRUE),
               h0, Range0(nb))

ValidParams(outlen, keylen) == outlen \in 1..64 /\ keylen \in 0..64

\* RFC 7693 BLAKE2b(msg, key) with digest length outlen
Hash(msg, outlen, key) ==
  LET keylen == Len(key)
      data == (IF keylen > 0 THEN PadTo(key, 128) ELSE <<>>) \o msg
      h == Absorb(InitH(outlen, keylen), data)
  IN  SubSeq(WordsToBytes(h), 1, outlen)

Hash512(msg) == Hash(msg, 64, <<>>)
Hash256(msg) == Hash(msg, 32, <<>>)

LE32(n) == <<n % 256, (n \div 256) % 256, (n \div 65536) % 256, n \div 16777216>>

\* Argon2's H' (blake2b_long)
\* accumulator <<out, v>>: out grows by 32 bytes of each intermediate V_i
HashLong(msg, outlen) ==
  IF outlen <= 64 THEN Hash(LE32(outlen) \o msg, outlen, <<>>)
  ELSE LET v1 == Hash512(LE32(outlen) \o msg)
           \* number of further full 64-byte hashes: while toproduce > 64
           rem0 == outlen - 32
           nfull == IF rem0 > 64 THEN (rem0 - 33) \div 32 ELSE 0
           acc == FoldLeft(LAMBDA a, i : LET w == Hash512(a[2]) IN <<a[1] \o SubSeq(w, 1, 32), w>>,
                           <<SubSeq(v1, 1, 32), v1>>, Range0(nfull))
       IN  acc[1] \o Hash(acc[2], rem0 - 32 * nfull, <<>>)

(***************************************************************************)
(* The commitment of RandomX v2: Blake2b-256(input || hash)                *)
(***************************************************************************)
Commitment(input, hash32) == Hash256(input \o hash32)

(***************************************************************************)
(* BlakeGenerator (specs.md 3.5): the byte stream is                       *)
(*   S0 = Hash512(PadTo(seed[1..min(len,60)] , 64) with nonce at 60..63),  *)
(* actually: data[0..63] = 0; copy min(60,len) seed bytes; store32 nonce   *)
(* at offset 60; index starts at 64 so the first request re-hashes.        *)
(***************************************************************************)
GenInitData(seed, nonce) ==
  LET n == IF Len(seed) > 60 THEN 60 ELSE Len(seed)
  IN  PadTo(SubSeq(seed, 1, n), 60) \o LE32(nonce)

\* k-th 64-byte block of the generator stream (k >= 1)
GenBlock(data0, k) == FoldLeft(LAMBDA d, i : Hash512(d), data0, Range0(k))

=============================================================================
