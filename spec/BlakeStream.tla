----------------------------- MODULE BlakeStream -----------------------------
(***************************************************************************)
(* The streaming interface of the bundled Blake2b (init / init_key /       *)
(* update / final) as a state machine, written like blake2b.c:             *)
(*   - update buffers lazily: a block is compressed only when MORE than B  *)
(*     bytes are pending, so the last block is always still in the buffer  *)
(*     when final() is called (no extra empty block for |msg| = k*B);      *)
(*   - the byte counter is two words t[0], t[1] with a manual carry;       *)
(*   - a state whose final flag is set rejects update and final.           *)
(* The compression function F, the initial chaining value H0 and the       *)
(* block size B are parameters: MCBlake instantiates them abstractly       *)
(* (B = 4, F = uninterpreted term, counter words modulo TMod) and checks   *)
(* all chunkings; TraceBlake instantiates them with RFC 7693 (B = 128,     *)
(* Blake2b!Compress) and replays the calls recorded from the real code.    *)
(***************************************************************************)
EXTENDS Integers, Sequences, SequencesExt, TLC

CONSTANTS B,            \* block size in bytes
          OutMax,       \* largest digest length (64)
          KeyMax,       \* largest key length (64)
          TMod,         \* modulus of one counter word (2^64 in reality)
          F(_, _, _, _),\* F(h, blockBytes, <<t0,t1>>, last)
          H0(_, _)      \* H0(outlen, keylen)

ZerosB(n) == [i \in 1..n |-> 0]

\* blake2b_increment_counter
TInc(t, inc) == LET s == (t[1] + inc) % TMod
                IN  <<s, (t[2] + (IF s < inc THEN 1 ELSE 0)) % TMod>>

Dead == [h |-> <<>>, t |-> <<0, 0>>, f |-> TRUE, buf |-> <<>>, outlen |-> 0]

\* blake2b_update; returns <<rc, state'>>
Update(st, in) ==
  IF Len(in) = 0 THEN <<0, st>>
  ELSE IF st.f THEN <<-1, st>>
  ELSE IF Len(st.buf) + Len(in) > B
  THEN LET fill == B - Len(st.buf)
           t1 == TInc(st.t, B)
           h1 == F(st.h, st.buf \o SubSeq(in, 1, fill), t1, FALSE)
           rest == SubSeq(in, fill + 1, Len(in))
           \* while (inlen > B) compress directly from the input
           nfull == IF Len(rest) > B THEN (Len(rest) - 1) \div B ELSE 0
           acc == FoldLeft(LAMBDA a, k : LET tt == TInc(a[2], B)
                                          IN  <<F(a[1], SubSeq(rest, B * k + 1, B * k + B), tt, FALSE), tt>>,
                           <<h1, t1>>, [k \in 1..nfull |-> k - 1])
       IN  <<0, [st EXCEPT !.h = acc[1], !.t = acc[2],
                           !.buf = SubSeq(rest, B * nfull + 1, Len(rest))]>>
  ELSE <<0, [st EXCEPT !.buf = st.buf \o in]>>

\* blake2b_init / blake2b_init_key; keyed = init_key was called; keyNull = key pointer NULL
StreamInit(outlen, key, keyed, keyNull) ==
  IF outlen = 0 \/ outlen > OutMax THEN <<-1, Dead>>
  ELSE IF keyed /\ (keyNull \/ Len(key) = 0 \/ Len(key) > KeyMax) THEN <<-1, Dead>>
  ELSE LET s0 == [h |-> H0(outlen, IF keyed THEN Len(key) ELSE 0), t |-> <<0, 0>>, f |-> FALSE,
                  buf |-> <<>>, outlen |-> outlen]
       IN  IF keyed THEN <<0, Update(s0, key \o ZerosB(B - Len(key)))[2]>> ELSE <<0, s0>>

\* blake2b_final(S, out, outlen): returns <<rc, state', h>> (h = chaining value the digest is cut from)
Final(st, reqlen) ==
  IF reqlen < st.outlen THEN <<-1, st, <<>> >>
  ELSE IF st.f THEN <<-1, st, <<>> >>
  ELSE LET t1 == TInc(st.t, Len(st.buf))
           h1 == F(st.h, st.buf \o ZerosB(B - Len(st.buf)), t1, TRUE)
       IN  <<0, [st EXCEPT !.h = h1, !.t = t1, !.f = TRUE], h1>>

(***************************************************************************)
(* RFC 7693, section 3.3, stated independently of any buffering: the data  *)
(* (key block, if any, then message) is cut into dd = max(1, ceil(n/B))    *)
(* blocks; blocks 0..dd-2 are compressed with t = (i+1)*B, the last one    *)
(* (zero padded) with t = n and the final flag.                            *)
(***************************************************************************)
TOf(n) == <<n % TMod, (n \div TMod) % TMod>>
Rfc(outlen, key, msg) ==
  LET kk == Len(key)
      data == (IF kk > 0 THEN key \o ZerosB(B - kk) ELSE <<>>) \o msg
      n == Len(data)
      dd == IF n = 0 THEN 1 ELSE (n + B - 1) \div B
  IN  FoldLeft(LAMBDA h, i :
                 IF i + 1 < dd THEN F(h, SubSeq(data, B * i + 1, B * i + B), TOf(B * (i + 1)), FALSE)
                 ELSE LET lastb == SubSeq(data, B * i + 1, n)
                      IN  F(h, lastb \o ZerosB(B - Len(lastb)), TOf(n), TRUE),
               H0(outlen, kk), [i \in 1..dd |-> i - 1])

\* run a whole streaming session: init, updates with the given chunks, final(reqlen)
\* returns <<rcs, h, final state>>
Session(outlen, key, keyed, keyNull, chunks, reqlen) ==
  LET i0 == StreamInit(outlen, key, keyed, keyNull)
      acc == FoldLeft(LAMBDA a, c : LET u == Update(a[2], c) IN <<Append(a[1], u[1]), u[2]>>,
                      <<<<i0[1]>>, i0[2]>>, chunks)
      fin == Final(acc[2], reqlen)
  IN  <<Append(acc[1], fin[1]), fin[3], fin[2]>>
=============================================================================
