---------------------------- MODULE BranchLemma ----------------------------
(***************************************************************************)
(* The arithmetic core of C07 proved directly on integers (TLAPS, SMT back *)
(* end) instead of through the carry abstraction of RxBranch!Lemma (which  *)
(* TLC checks exhaustively on its finite domain).                          *)
(*                                                                         *)
(* CBRANCH with condition position b (8..23 = mod.cond + 8) adds cimm to   *)
(* its register and jumps iff bits b..b+7 of the sum are zero; cimm has    *)
(* bit b set and bit b-1 cleared (specs.md 5.4.2).  Bits above b+7 never   *)
(* influence bits b..b+7 of a sum, so the 64-bit addition is taken modulo  *)
(* 2^(b+8) (2^(b+8) divides 2^64); r and cimm below stand for the low b+8  *)
(* bits of the register and of the sign-extended immediate.  For each b:   *)
(* whatever r and cimm are, the branch is not taken three times in a row   *)
(* when the register is not modified in between - which the last-writer    *)
(* rule guarantees (structural machine of RxBranch, branch targets bound   *)
(* to both engines by TraceVm!TargetsOk).                                  *)
(* The statement without the cleared bit b-1 is false (RxBranch!           *)
(* LemmaNeedsClearedBit exhibits a witness) and is, accordingly, not       *)
(* provable.                                                               *)
(***************************************************************************)
EXTENDS Integers, TLAPS

THEOREM NoThreeTakes_8 ==        \* condition position b = 8
  \A r \in 0..65535, cimm \in 0..65535 :
     ((cimm \div 256) % 2 = 1 /\ (cimm \div 128) % 2 = 0) =>
       LET r1 == (r + cimm) % 65536
           r2 == (r1 + cimm) % 65536
           r3 == (r2 + cimm) % 65536
       IN  ~((r1 \div 256 = 0) /\ (r2 \div 256 = 0) /\ (r3 \div 256 = 0))
  OBVIOUS

THEOREM NoThreeTakes_9 ==        \* condition position b = 9
  \A r \in 0..131071, cimm \in 0..131071 :
     ((cimm \div 512) % 2 = 1 /\ (cimm \div 256) % 2 = 0) =>
       LET r1 == (r + cimm) % 131072
           r2 == (r1 + cimm) % 131072
           r3 == (r2 + cimm) % 131072
       IN  ~((r1 \div 512 = 0) /\ (r2 \div 512 = 0) /\ (r3 \div 512 = 0))
  OBVIOUS

THEOREM NoThreeTakes_10 ==        \* condition position b = 10
  \A r \in 0..262143, cimm \in 0..262143 :
     ((cimm \div 1024) % 2 = 1 /\ (cimm \div 512) % 2 = 0) =>
       LET r1 == (r + cimm) % 262144
           r2 == (r1 + cimm) % 262144
           r3 == (r2 + cimm) % 262144
       IN  ~((r1 \div 1024 = 0) /\ (r2 \div 1024 = 0) /\ (r3 \div 1024 = 0))
  OBVIOUS

THEOREM NoThreeTakes_11 ==        \* condition position b = 11
  \A r \in 0..524287, cimm \in 0..524287 :
     ((cimm \div 2048) % 2 = 1 /\ (cimm \div 1024) % 2 = 0) =>
       LET r1 == (r + cimm) % 524288
           r2 == (r1 + cimm) % 524288
           r3 == (r2 + cimm) % 524288
       IN  ~((r1 \div 2048 = 0) /\ (r2 \div 2048 = 0) /\ (r3 \div 2048 = 0))
  OBVIOUS

THEOREM NoThreeTakes_12 ==        \* condition position b = 12
  \A r \in 0..1048575, cimm \in 0..1048575 :
     ((cimm \div 4096) % 2 = 1 /\ (cimm \div 2048) % 2 = 0) =>
       LET r1 == (r + cimm) % 1048576
           r2 == (r1 + cimm) % 1048576
           r3 == (r2 + cimm) % 1048576
       IN  ~((r1 \div 4096 = 0) /\ (r2 \div 4096 = 0) /\ (r3 \div 4096 = 0))
  OBVIOUS

THEOREM NoThreeTakes_13 ==        \* condition position b = 13
  \A r \in 0..2097151, cimm \in 0..2097151 :
     ((cimm \div 8192) % 2 = 1 /\ (cimm \div 4096) % 2 = 0) =>
       LET r1 == (r + cimm) % 2097152
           r2 == (r1 + cimm) % 2097152
           r3 == (r2 + cimm) % 2097152
       IN  ~((r1 \div 8192 = 0) /\ (r2 \div 8192 = 0) /\ (r3 \div 8192 = 0))
  OBVIOUS

THEOREM NoThreeTakes_14 ==        \* condition position b = 14
  \A r \in 0..4194303, cimm \in 0..4194303 :
     ((cimm \div 16384) % 2 = 1 /\ (cimm \div 8192) % 2 = 0) =>
       LET r1 == (r + cimm) % 4194304
           r2 == (r1 + cimm) % 4194304
           r3 == (r2 + cimm) % 4194304
       IN  ~((r1 \div 16384 = 0) /\ (r2 \div 16384 = 0) /\ (r3 \div 16384 = 0))
  OBVIOUS

THEOREM NoThreeTakes_15 ==        \* condition position b = 15
  \A r \in 0..8388607, cimm \in 0..8388607 :
     ((cimm \div 32768) % 2 = 1 /\ (cimm \div 16384) % 2 = 0) =>
       LET r1 == (r + cimm) % 8388608
           r2 == (r1 + cimm) % 8388608
           r3 == (r2 + cimm) % 8388608
       IN  ~((r1 \div 32768 = 0) /\ (r2 \div 32768 = 0) /\ (r3 \div 32768 = 0))
  OBVIOUS

THEOREM NoThreeTakes_16 ==        \* condition position b = 16
  \A r \in 0..16777215, cimm \in 0..16777215 :
     ((cimm \div 65536) % 2 = 1 /\ (cimm \div 32768) % 2 = 0) =>
       LET r1 == (r + cimm) % 16777216
           r2 == (r1 + cimm) % 16777216
           r3 == (r2 + cimm) % 16777216
       IN  ~((r1 \div 65536 = 0) /\ (r2 \div 65536 = 0) /\ (r3 \div 65536 = 0))
  OBVIOUS

THEOREM NoThreeTakes_17 ==        \* condition position b = 17
  \A r \in 0..33554431, cimm \in 0..33554431 :
     ((cimm \div 131072) % 2 = 1 /\ (cimm \div 65536) % 2 = 0) =>
       LET r1 == (r + cimm) % 33554432
           r2 == (r1 + cimm) % 33554432
           r3 == (r2 + cimm) % 33554432
       IN  ~((r1 \div 131072 = 0) /\ (r2 \div 131072 = 0) /\ (r3 \div 131072 = 0))
  OBVIOUS

THEOREM NoThreeTakes_18 ==        \* condition position b = 18
  \A r \in 0..67108863, cimm \in 0..67108863 :
     ((cimm \div 262144) % 2 = 1 /\ (cimm \div 131072) % 2 = 0) =>
       LET r1 == (r + cimm) % 67108864
           r2 == (r1 + cimm) % 67108864
           r3 == (r2 + cimm) % 67108864
       IN  ~((r1 \div 262144 = 0) /\ (r2 \div 262144 = 0) /\ (r3 \div 262144 = 0))
  OBVIOUS

THEOREM NoThreeTakes_19 ==        \* condition position b = 19
  \A r \in 0..134217727, cimm \in 0..134217727 :
     ((cimm \div 524288) % 2 = 1 /\ (cimm \div 262144) % 2 = 0) =>
       LET r1 == (r + cimm) % 134217728
           r2 == (r1 + cimm) % 134217728
           r3 == (r2 + cimm) % 134217728
       IN  ~((r1 \div 524288 = 0) /\ (r2 \div 524288 = 0) /\ (r3 \div 524288 = 0))
  OBVIOUS

THEOREM NoThreeTakes_20 ==        \* condition position b = 20
  \A r \in 0..268435455, cimm \in 0..268435455 :
     ((cimm \div 1048576) % 2 = 1 /\ (cimm \div 524288) % 2 = 0) =>
       LET r1 == (r + cimm) % 268435456
           r2 == (r1 + cimm) % 268435456
           r3 == (r2 + cimm) % 268435456
       IN  ~((r1 \div 1048576 = 0) /\ (r2 \div 1048576 = 0) /\ (r3 \div 1048576 = 0))
  OBVIOUS

THEOREM NoThreeTakes_21 ==        \* condition position b = 21
  \A r \in 0..536870911, cimm \in 0..536870911 :
     ((cimm \div 2097152) % 2 = 1 /\ (cimm \div 1048576) % 2 = 0) =>
       LET r1 == (r + cimm) % 536870912
           r2 == (r1 + cimm) % 536870912
           r3 == (r2 + cimm) % 536870912
       IN  ~((r1 \div 2097152 = 0) /\ (r2 \div 2097152 = 0) /\ (r3 \div 2097152 = 0))
  OBVIOUS

THEOREM NoThreeTakes_22 ==        \* condition position b = 22
  \A r \in 0..1073741823, cimm \in 0..1073741823 :
     ((cimm \div 4194304) % 2 = 1 /\ (cimm \div 2097152) % 2 = 0) =>
       LET r1 == (r + cimm) % 1073741824
           r2 == (r1 + cimm) % 1073741824
           r3 == (r2 + cimm) % 1073741824
       IN  ~((r1 \div 4194304 = 0) /\ (r2 \div 4194304 = 0) /\ (r3 \div 4194304 = 0))
  OBVIOUS

THEOREM NoThreeTakes_23 ==        \* condition position b = 23
  \A r \in 0..2147483647, cimm \in 0..2147483647 :
     ((cimm \div 8388608) % 2 = 1 /\ (cimm \div 4194304) % 2 = 0) =>
       LET r1 == (r + cimm) % 2147483648
           r2 == (r1 + cimm) % 2147483648
           r3 == (r2 + cimm) % 2147483648
       IN  ~((r1 \div 8388608 = 0) /\ (r2 \div 8388608 = 0) /\ (r3 \div 8388608 = 0))
  OBVIOUS
=============================================================================
