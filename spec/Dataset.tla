-------------------------------- MODULE Dataset --------------------------------
(***************************************************************************)
(* Dataset initialisation as a machine (property C08, splitting part).     *)
(*                                                                         *)
(* randomx_init_dataset(dataset, cache, start, count) hands the work to    *)
(* the cache's initialiser function, which (in its compiled form) only     *)
(* accepts ranges whose length is a positive multiple of 4.  The public    *)
(* function therefore splits a request exactly like this:                  *)
(*    count < 4        one inner call (start, start+4) into a private      *)
(*                     buffer, then `count` items are copied               *)
(*    count % 4 = 0    one inner call (start, start+count) in place        *)
(*    otherwise        inner (start, start+count-count%4) in place, then   *)
(*                     inner (start+count-4, start+count) in place (the    *)
(*                     last four items of the caller's own range)          *)
(* An inner call writes its items one at a time, so that TLC interleaves   *)
(* the writes of concurrently running calls.  Item values are abstract:    *)
(* Item(i) = <<"item", i>> (the construction 7.3 is in Superscalar.tla).   *)
(***************************************************************************)
EXTENDS DatasetSplit, FiniteSets, TLC

CONSTANTS N,          \* number of dataset items (scaled down)
          Threads

Untouched == <<"untouched", -1>>
Item(i) == <<"item", i>>

\* single-item writes of a request, in code order: <<dataset index, item number>>
RECURSIVE Range(_, _)
Range(a, b) == IF a >= b THEN <<>> ELSE <<a>> \o Range(a + 1, b)
WritesOfInner(c) == IF c.dest = -1 THEN <<>> ELSE [k \in 1..(c.e - c.s) |-> <<c.dest + k - 1, c.s + k - 1>>]
RECURSIVE Flat(_)
Flat(ss) == IF ss = <<>> THEN <<>> ELSE Head(ss) \o Flat(Tail(ss))
Writes(start, count) ==
  IF count < 4 THEN [k \in 1..count |-> <<start + k - 1, start + k - 1>>]        \* memcpy of `count` items from the buffer
  ELSE Flat([i \in 1..Len(InnerCalls(start, count)) |-> WritesOfInner(InnerCalls(start, count)[i])])

VARIABLES ds,        \* [0..N-1 -> value]
          req,       \* [Threads -> [start, count] or none]
          todo,      \* [Threads -> remaining single-item writes of the thread's request]
          writers    \* ghost: [0..N-1 -> set of threads that wrote the item]
vars == <<ds, req, todo, writers>>

NoReq == [start |-> 0, count |-> 0]
Disjoint(r1, r2) == r1.start + r1.count <= r2.start \/ r2.start + r2.count <= r1.start \/ r1.count = 0 \/ r2.count = 0

Init == /\ ds = [i \in 0..(N - 1) |-> Untouched]
        /\ req \in [Threads -> {[start |-> s, count |-> c] : s \in 0..(N - 1), c \in 0..N}]
        /\ \A t \in Threads : req[t].start + req[t].count <= N
        /\ \A a, b \in Threads : a # b => Disjoint(req[a], req[b])
        /\ todo = [t \in Threads |-> Writes(req[t].start, req[t].count)]
        /\ writers = [i \in 0..(N - 1) |-> {}]

WriteOne(t) == /\ todo[t] # <<>>
               /\ LET w == Head(todo[t])
                  IN  /\ ds' = [ds EXCEPT ![w[1]] = Item(w[2])]
                      /\ writers' = [writers EXCEPT ![w[1]] = writers[w[1]] \cup {t}]
               /\ todo' = [todo EXCEPT ![t] = Tail(todo[t])]
               /\ UNCHANGED req
Next == \E t \in Threads : WriteOne(t)
Spec == Init /\ [][Next]_vars

Requested(t) == req[t].start..(req[t].start + req[t].count - 1)
AllDone == \A t \in Threads : todo[t] = <<>>

\* what the compiled initialiser is ever asked for: a positive multiple of 4 items
InnerWellFormed == \A t \in Threads : \A i \in 1..Len(InnerCalls(req[t].start, req[t].count)) :
                      LET c == InnerCalls(req[t].start, req[t].count)[i]
                      IN  c.e - c.s > 0 /\ (c.e - c.s) % 4 = 0 /\ (c.dest # -1 => (c.dest = c.s /\ c.s >= req[t].start /\ c.e <= req[t].start + req[t].count))
\* a call writes only requested items (never a neighbour's), each with its own value
WritesInsideRequest == \A i \in 0..(N - 1) : \A t \in writers[i] : i \in Requested(t)
ValuesCorrect == \A i \in 0..(N - 1) : ds[i] # Untouched => ds[i] = Item(i)
NoSharedItem == \A i \in 0..(N - 1) : Cardinality(writers[i]) <= 1
\* when all calls returned, exactly the requested items are initialised
ExactlyRequested == AllDone => \A i \in 0..(N - 1) : (ds[i] # Untouched) <=> (\E t \in Threads : i \in Requested(t))
=============================================================================
