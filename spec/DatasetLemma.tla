---------------------------- MODULE DatasetLemma ----------------------------
(***************************************************************************)
(* Unbounded versions (TLAPS, SMT back end) of the range-splitting facts   *)
(* that TLC checks on Dataset.tla for N = 13 / 16 items: for EVERY start   *)
(* and count, the inner calls of randomx_init_dataset                      *)
(* (Dataset!InnerCalls) ask the initialiser for a positive multiple of 4   *)
(* items, write only inside the request, and for count >= 4 the items they *)
(* write are exactly the requested ones.                                   *)
(***************************************************************************)
EXTENDS DatasetSplit, TLAPS

\* item i is written by inner call c (calls with dest = -1 go to the private buffer)
WrittenBy(i, c) == c.dest # -1 /\ c.dest <= i /\ i < c.dest + (c.e - c.s)

THEOREM InnerCallsWellFormed ==
  \A s \in Nat, c \in Nat :
    \A k \in 1..Len(InnerCalls(s, c)) :
       LET x == InnerCalls(s, c)[k]
       IN  /\ x.e - x.s > 0 /\ (x.e - x.s) % 4 = 0
           /\ (x.dest # -1 => (x.dest = x.s /\ x.s >= s /\ x.e <= s + c))
<1> SUFFICES ASSUME NEW s \in Nat, NEW c \in Nat, NEW k \in 1..Len(InnerCalls(s, c))
             PROVE  LET x == InnerCalls(s, c)[k]
                    IN  /\ x.e - x.s > 0 /\ (x.e - x.s) % 4 = 0
                        /\ (x.dest # -1 => (x.dest = x.s /\ x.s >= s /\ x.e <= s + c))
    OBVIOUS
<1>1. CASE c < 4
    BY <1>1 DEF InnerCalls
<1>2. CASE c >= 4 /\ c % 4 = 0
    BY <1>2 DEF InnerCalls
<1>3. CASE c >= 4 /\ c % 4 # 0
    BY <1>3 DEF InnerCalls
<1> QED BY <1>1, <1>2, <1>3

THEOREM InnerCallsCover ==
  \A s \in Nat, c \in Nat, i \in Int :
     c >= 4 => ((\E k \in 1..Len(InnerCalls(s, c)) : WrittenBy(i, InnerCalls(s, c)[k])) <=> (s <= i /\ i < s + c))
<1> SUFFICES ASSUME NEW s \in Nat, NEW c \in Nat, NEW i \in Int, c >= 4
             PROVE  (\E k \in 1..Len(InnerCalls(s, c)) : WrittenBy(i, InnerCalls(s, c)[k])) <=> (s <= i /\ i < s + c)
    OBVIOUS
<1>1. CASE c % 4 = 0
    <2>1. InnerCalls(s, c) = << [s |-> s, e |-> s + c, dest |-> s] >>
        BY <1>1 DEF InnerCalls
    <2> QED BY <2>1 DEF WrittenBy
<1>2. CASE c % 4 # 0
    <2>1. InnerCalls(s, c) = << [s |-> s, e |-> s + c - (c % 4), dest |-> s], [s |-> s + c - 4, e |-> s + c, dest |-> s + c - 4] >>
        BY <1>2 DEF InnerCalls
    <2>2. c % 4 \in 1..3
        BY <1>2
    <2> QED BY <2>1, <2>2 DEF WrittenBy
<1> QED BY <1>1, <1>2
=============================================================================
