---------------------------- MODULE DatasetSplit ----------------------------
(***************************************************************************)
(* How randomx_init_dataset(start, count) splits a request into calls of   *)
(* the cache's item initialiser (which works in batches of 4 items):       *)
(* src/randomx.cpp, randomx_init_dataset.  Kept in a module of its own     *)
(* (no RECURSIVE operators) so that DatasetLemma can prove facts about it  *)
(* for every start and count with TLAPS; Dataset.tla (TLC) extends it.     *)
(***************************************************************************)
EXTENDS Integers, Sequences

\* inner calls of one request: sequence of [s, e, dest] with dest = first dataset index written, or -1 for the private buffer
InnerCalls(start, count) ==
  IF count < 4 THEN << [s |-> start, e |-> start + 4, dest |-> -1] >>
  ELSE IF count % 4 = 0 THEN << [s |-> start, e |-> start + count, dest |-> start] >>
  ELSE << [s |-> start, e |-> start + count - (count % 4), dest |-> start],
          [s |-> start + count - 4, e |-> start + count, dest |-> start + count - 4] >>

=============================================================================
