SPECIFICATION Spec
INVARIANT TViewOk
INVARIANT InversesOk
INVARIANT CombinedOk
CHECK_DEADLOCK FALSE
