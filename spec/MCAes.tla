-------------------------------- MODULE MCAes --------------------------------
(***************************************************************************)
(* Exhaustive checks on the AES layer:                                     *)
(*  - every literal table entry equals its definition in GF(2^8);          *)
(*  - the published keys/initial state equal Blake2b of the named strings; *)
(*  - for every byte value b and a family of states built from it, the     *)
(*    T-table formulation of a round (what soft_aes.cpp computes) equals   *)
(*    the FIPS-197 round, and Dec inverts the unkeyed part of Enc's        *)
(*    SubBytes/ShiftRows/MixColumns pipeline in the AESDEC sense;          *)
(*  - the fingerprint-and-refill step is the pair of independent functions *)
(*    for buffers of 1..3 blocks.                                          *)
(***************************************************************************)
EXTENDS Aes
VARIABLE b
St(x) == [i \in 1..16 |-> (x + (17 * i) + ((i * i * x) % 251)) % 256]
Ky(x) == [i \in 1..16 |-> ((3 * x) + (29 * i)) % 256]
Zero16 == [i \in 1..16 |-> 0]

\* round through T-tables: output column c gathers, for each row r, table r of the byte that
\* ShiftRows moves into (r, c)
EncViaT(s, k) ==
  [i \in 1..16 |-> LET r == (i - 1) % 4  c == (i - 1) \div 4
                   IN  (((EncT(0, At(s, 0, c))[r + 1] ^^ EncT(1, At(s, 1, (c + 1) % 4))[r + 1]) ^^
                        (EncT(2, At(s, 2, (c + 2) % 4))[r + 1] ^^ EncT(3, At(s, 3, (c + 3) % 4))[r + 1]))
                       ^^ k[i])]
DecViaT(s, k) ==
  [i \in 1..16 |-> LET r == (i - 1) % 4  c == (i - 1) \div 4
                   IN  (((DecT(0, At(s, 0, c))[r + 1] ^^ DecT(1, At(s, 1, (c + 3) % 4))[r + 1]) ^^
                        (DecT(2, At(s, 2, (c + 2) % 4))[r + 1] ^^ DecT(3, At(s, 3, (c + 1) % 4))[r + 1]))
                       ^^ k[i])]

\* InvMixColumns . MixColumns = id ; InvShiftRows . ShiftRows = id ; InvSubBytes . SubBytes = id
Inverses(s) == /\ MixWith(InvMixM, MixWith(MixM, s)) = s
               /\ InvShiftRows(ShiftRows(s)) = s
               /\ InvSubBytes(SubBytes(s)) = s

Buf(x, n) == [i \in 1..(64 * n) |-> ((x * 7) + (i * 13) + ((i \div 64) * x)) % 256]

Init == b = 0
Next == b < 255 /\ b' = b + 1
Spec == Init /\ [][Next]_b

TViewOk == /\ EncViaT(St(b), Ky(b)) = Enc(St(b), Ky(b))
           /\ DecViaT(St(b), Ky(b)) = Dec(St(b), Ky(b))
InversesOk == /\ Inverses(St(b))
              /\ EncInv(Enc(St(b), Ky(b)), Ky(b)) = St(b) /\ DecInv(Dec(St(b), Ky(b)), Ky(b)) = St(b)
              /\ HashFinishInv(HashFinish(<<St(b), Ky(b), St(b + 1), Ky(b + 2)>>)) = <<St(b), Ky(b), St(b + 1), Ky(b + 2)>>
CombinedOk == \A n \in 1..2 :
   LET r == HashAndFill(Buf(b, n), Buf(b + 1, 1))
       g == Gen1(Buf(b + 1, 1), n)
   IN  /\ r.hash = Hash1R(Buf(b, n)) /\ r.buf = g[1] /\ r.state = Flat(g[2])
       /\ Len(r.buf) = 64 * n

ASSUME TablesCorrect
ASSUME ConstantsFromStrings
=============================================================================
