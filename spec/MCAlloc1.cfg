SPECIFICATION Spec
CONSTANTS
  Objs = {"o1"}
  HugeAvailable = FALSE
  DeallocEarlyOut = FALSE
INVARIANT NoLeak
INVARIANT CyclesDoNotGrow
PROPERTY FailureIsClean
PROPERTY ReleaseGivesBack
CHECK_DEADLOCK FALSE
