SPECIFICATION Spec
CONSTANTS
  Objs = {"o1", "o2"}
  HugeAvailable = TRUE
  DeallocEarlyOut = FALSE
INVARIANT NoLeak
INVARIANT CyclesDoNotGrow
PROPERTY FailureIsClean
PROPERTY ReleaseGivesBack
CHECK_DEADLOCK FALSE
