SPECIFICATION Spec
CONSTANTS
  Objs = {"o1", "o2"}
  HugeAvailable = FALSE
  DeallocEarlyOut = TRUE
INVARIANT NoLeak
INVARIANT CyclesDoNotGrow
PROPERTY FailureIsClean
PROPERTY ReleaseGivesBack
CHECK_DEADLOCK FALSE
