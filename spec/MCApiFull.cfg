SPECIFICATION Spec
CONSTANTS
  Keys = {"K1", "K2"}
  Inputs = {"I1"}
  Caches = {"c1"}
  Vms = {"v1", "v2"}
  Datasets = {"d1"}
  SAddrs = {"s1"}
  MAddrs = {"m1"}
  DAddrs = {"dm1", "dm2"}
  LightKinds = {}
  FullKinds = {"IF", "CF"}
  NChunks = 2
  IdentityCheck = TRUE
  EnablePipeline = FALSE
  EnableV2 = FALSE
  EnableForeign = FALSE
  EnableRc = FALSE
INVARIANT HistoryIndependence
INVARIANT NoDangling
INVARIANT NoDanglingState
INVARIANT ReadsExpected
INVARIANT V2InSync
INVARIANT TypeOK
CHECK_DEADLOCK FALSE
