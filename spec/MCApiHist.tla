------------------------------ MODULE MCApiHist ------------------------------
(* RxApi with symmetry sets for exhaustive checking: caches, VMs, keys, struct and memory
   addresses are interchangeable (no action distinguishes them by name). *)
EXTENDS RxApi
Symm == Permutations(Caches) \cup Permutations(Vms) \cup Permutations(Keys)
        \cup Permutations(SAddrs) \cup Permutations(MAddrs)
=============================================================================
