SPECIFICATION Spec
CONSTANTS
  Keys = {K1, K2}
  Inputs = {"I1"}
  Caches = {c1, c2}
  Vms = {v1, v2}
  Datasets = {}
  SAddrs = {s1, s2}
  MAddrs = {m1, m2}
  DAddrs = {}
  LightKinds = {"IL", "CL"}
  FullKinds = {}
  NChunks = 1
  IdentityCheck = TRUE
  EnablePipeline = FALSE
  EnableV2 = FALSE
  EnableForeign = TRUE
  EnableRc = FALSE
SYMMETRY Symm
INVARIANT HistoryIndependence
INVARIANT NoDangling
INVARIANT NoDanglingState
INVARIANT ReadsExpected
INVARIANT V2InSync
INVARIANT TypeOK
CHECK_DEADLOCK FALSE
