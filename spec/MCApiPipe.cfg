SPECIFICATION Spec
CONSTANTS
  Keys = {"K1"}
  Inputs = {"I1", "I2"}
  Caches = {"c1"}
  Vms = {"v1", "v2"}
  Datasets = {}
  SAddrs = {"s1"}
  MAddrs = {"m1"}
  DAddrs = {}
  LightKinds = {"IL", "CL"}
  FullKinds = {}
  NChunks = 1
  IdentityCheck = TRUE
  EnablePipeline = TRUE
  EnableV2 = TRUE
  EnableForeign = FALSE
  EnableRc = TRUE
INVARIANT HistoryIndependence
INVARIANT NoDangling
INVARIANT NoDanglingState
INVARIANT ReadsExpected
INVARIANT V2InSync
INVARIANT TypeOK
INVARIANT PipelineSp
CHECK_DEADLOCK FALSE
