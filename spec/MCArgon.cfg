SPECIFICATION Spec
CONSTANTS
  M = 16
  T = 3
INVARIANT RefOk
INVARIANT OncePerPass
INVARIANT AllWritten
CHECK_DEADLOCK FALSE
