-------------------------------- MODULE MCArgon --------------------------------
(***************************************************************************)
(* Exhaustive check of the Argon2d segment schedule (one lane): block      *)
(* contents are abstracted away, the pseudo-random value J1 taken from the *)
(* previous block is chosen nondeterministically from a boundary set at    *)
(* every step.  Invariants: the reference index is inside the lane, is     *)
(* never the block being written nor its predecessor-in-progress, in the   *)
(* first pass it designates an already written block, every block is       *)
(* written exactly once per pass, XOR-over is used exactly in passes > 0.  *)
(***************************************************************************)
EXTENDS Argon2
CONSTANTS M, T
J1s == { <<0, 0>>, <<1, 0>>, <<65535, 65535>>, <<0, 32768>>, <<65535, 32767>>, <<0, 1>>, <<12345, 6789>> }
VARIABLES k, written, lastRef, cnt     \* k: position number; written: blocks written so far in pass 0; cnt: writes of each block in the current pass
Pos == Positions(M, T)
SegLen == M \div 4
Init == k = 1 /\ written = {0, 1} /\ lastRef = -1 /\ cnt = [b \in 0..(M - 1) |-> IF b < 2 THEN 1 ELSE 0]
Step(j) == /\ k <= Len(Pos)
           /\ LET p == Pos[k]
                  ref == IndexAlpha(p.pass, p.slice, p.index, j, SegLen, M)
              IN  /\ lastRef' = ref
                  /\ written' = written \cup {p.cur}
                  /\ cnt' = IF p.cur = 0 /\ p.pass > 0 THEN [b \in 0..(M - 1) |-> IF b = 0 THEN 1 ELSE 0] ELSE [cnt EXCEPT ![p.cur] = cnt[p.cur] + 1]
           /\ k' = k + 1
Next == \E j \in J1s : Step(j)
Spec == Init /\ [][Next]_<<k, written, lastRef, cnt>>
\* evaluated on the transition just taken (position k-1)
RefOk == k > 1 => LET p == Pos[k - 1] IN
            /\ lastRef \in 0..(M - 1)
            /\ lastRef # p.cur
            /\ (p.pass = 0 => lastRef < p.cur /\ lastRef \in written)
            \* the predecessor block is never the reference (it is already an input of the compression)
            /\ lastRef # (IF p.cur = 0 THEN M - 1 ELSE p.cur - 1)
            \* in later passes the not-yet-rewritten rest of the current segment is excluded
            /\ (p.pass > 0 => ~(lastRef > p.cur /\ lastRef < (p.slice + 1) * SegLen))
OncePerPass == \A b \in 0..(M - 1) : cnt[b] <= 1
AllWritten == k = Len(Pos) + 1 => \A b \in 0..(M - 1) : cnt[b] = 1
PositionsOk == /\ Len(Pos) = T * M - 2 /\ Pos[1].cur = 2 /\ Pos[1].pass = 0
               /\ \A i \in 1..(Len(Pos) - 1) : Pos[i + 1].cur = (Pos[i].cur + 1) % M
ASSUME PositionsOk
=============================================================================
