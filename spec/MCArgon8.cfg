SPECIFICATION Spec
CONSTANTS
  M = 8
  T = 2
INVARIANT RefOk
INVARIANT OncePerPass
INVARIANT AllWritten
CHECK_DEADLOCK FALSE
