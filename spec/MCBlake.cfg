SPECIFICATION Spec
CONSTANT MaxLen = 13
INVARIANT ChunkingIrrelevant
INVARIANT BufBound
INVARIANT CounterIsBytes
INVARIANT LastBlockPending
INVARIANT Reuse
INVARIANT ShortOut
CHECK_DEADLOCK FALSE
