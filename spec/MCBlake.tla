------------------------------- MODULE MCBlake -------------------------------
(***************************************************************************)
(* Exhaustive check of the Blake2b streaming machine for a small block     *)
(* size: every message length 0..MaxLen, every way of cutting it into      *)
(* update() calls (including empty ones), keyed and unkeyed.  F is an      *)
(* uninterpreted term constructor, so two sessions agree iff they made     *)
(* exactly the same sequence of compression calls.                         *)
(***************************************************************************)
EXTENDS Integers, Sequences, SequencesExt, TLC

CONSTANTS MaxLen

MB == 4
AbsF(h, b, t, l) == <<h, b, t, l>>
AbsH0(o, k) == <<"iv", o, k>>

S == INSTANCE BlakeStream WITH B <- MB, OutMax <- 4, KeyMax <- 4, TMod <- 8, F <- AbsF, H0 <- AbsH0

VARIABLES n,        \* message length
          key,      \* key bytes (<<>> = unkeyed)
          outlen,
          st,       \* streaming state
          fed,      \* bytes handed to update so far
          done,     \* final() was called
          result    \* chaining value returned by final
vars == <<n, key, outlen, st, fed, done, result>>

Msg(len) == [i \in 1..len |-> i]
Keys == { <<>>, <<101>>, <<101, 102, 103, 104>> }

Init == /\ n \in 0..MaxLen
        /\ key \in Keys
        /\ outlen \in {1, 4}
        /\ st = S!StreamInit(outlen, key, key # <<>>, FALSE)[2]
        /\ fed = 0 /\ done = FALSE /\ result = <<>>

Feed(k) == /\ ~done /\ k \in 0..(n - fed)
           /\ LET u == S!Update(st, SubSeq(Msg(n), fed + 1, fed + k))
              IN  /\ u[1] = 0
                  /\ st' = u[2]
           /\ fed' = fed + k
           /\ UNCHANGED <<n, key, outlen, done, result>>

Finish == /\ ~done /\ fed = n
          /\ LET f == S!Final(st, outlen)
             IN  /\ f[1] = 0
                 /\ st' = f[2]
                 /\ result' = f[3]
          /\ done' = TRUE
          /\ UNCHANGED <<n, key, outlen, fed>>

Next == (\E k \in 0..MaxLen : Feed(k)) \/ Finish
Spec == Init /\ [][Next]_vars

KeyBlock == IF key # <<>> THEN MB ELSE 0

\* the property: any chunking performs exactly the RFC's sequence of compressions
ChunkingIrrelevant == done => result = S!Rfc(outlen, key, Msg(n))
BufBound == Len(st.buf) <= MB
\* the two-word counter with manual carry equals the number of bytes compressed
CounterIsBytes == IF done THEN st.t = S!TOf(KeyBlock + n)
                  ELSE st.t = S!TOf(KeyBlock + fed - Len(st.buf))
\* lazy buffering: once any byte was absorbed the buffer is non-empty (the last block stays pending)
LastBlockPending == (~done /\ KeyBlock + fed > 0) => Len(st.buf) > 0
\* a finished state rejects further use and is left unchanged
Reuse == done => /\ S!Update(st, <<1>>) = <<-1, st>>
                 /\ S!Final(st, outlen)[1] = -1
                 /\ S!Update(st, <<>>)[1] = 0
\* short output buffer is rejected without compressing
ShortOut == (~done /\ outlen > 1) => S!Final(st, outlen - 1) = <<-1, st, <<>> >>

\* parameter validation
ASSUME S!StreamInit(0, <<>>, FALSE, FALSE)[1] = -1
ASSUME S!StreamInit(5, <<>>, FALSE, FALSE)[1] = -1
ASSUME S!StreamInit(4, <<>>, TRUE, FALSE)[1] = -1
ASSUME S!StreamInit(4, <<1,2,3,4,5>>, TRUE, FALSE)[1] = -1
ASSUME S!StreamInit(4, <<1>>, TRUE, TRUE)[1] = -1
ASSUME S!Update(S!StreamInit(0, <<>>, FALSE, FALSE)[2], <<1>>)[1] = -1
=============================================================================
