SPECIFICATION Spec
CONSTANTS
  N = 4
  Regs = {0, 1, 2}
INVARIANT BodyClean
INVARIANT Budget
INVARIANT Terminates
CHECK_DEADLOCK FALSE
