SPECIFICATION Spec
CONSTANTS
  N = 5
  Regs = {0, 1, 2}
INVARIANT BodyClean
INVARIANT Budget
INVARIANT Terminates
CHECK_DEADLOCK FALSE
