SPECIFICATION FairSpec
CONSTANTS
  N = 4
  Regs = {0, 1, 2}
PROPERTY EventuallyDone
CHECK_DEADLOCK FALSE
