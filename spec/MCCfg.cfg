SPECIFICATION Spec
CONSTANTS
  Keys = {"K1"}
  Inputs = {"I1"}
INVARIANT ConfigIndependence
INVARIANT DispatchSound
CHECK_DEADLOCK FALSE
CONSTRAINT Small
