SPECIFICATION Spec
CONSTANTS
  Threads = {"t1", "t2", "t3"}
  NChunks = 3
  AesProbeGlobal = FALSE
INVARIANT NoRace
INVARIANT WritesArePrivate
CHECK_DEADLOCK FALSE
