SPECIFICATION Spec
CONSTANTS
  N = 16
  Threads = {"t1", "t2"}
INVARIANT InnerWellFormed
INVARIANT WritesInsideRequest
INVARIANT ValuesCorrect
INVARIANT NoSharedItem
INVARIANT ExactlyRequested
CHECK_DEADLOCK FALSE
