SPECIFICATION Spec
INVARIANT ProgramsSeeDefault
PROPERTY RestoredAtExit
PROPERTY PipelineLeaves
CHECK_DEADLOCK FALSE
