SPECIFICATION Spec
INVARIANT OpcodeOk
CHECK_DEADLOCK FALSE
