-------------------------------- MODULE MCIsa --------------------------------
(***************************************************************************)
(* Exhaustive internal-consistency checks of the instruction-set           *)
(* definition: one TLC state per opcode byte; for every opcode all         *)
(* dst x src combinations, a representative set of mod bytes (every        *)
(* mod.mem, mod.shift, mod.cond value occurs) and immediate classes are    *)
(* decoded and the decode result must satisfy the structural facts C05 and *)
(* C07 rely on.  Also checks the reciprocal algorithm of reciprocal.c      *)
(* against its definition for scaled-down word sizes (all divisors).       *)
(***************************************************************************)
EXTENDS RxIsa
VARIABLE op
Mods == {0, 1, 2, 3, 4, 8, 12, 19, 37, 64 + 14, 5 + 16 * 9, 255} \cup {16 * c : c \in 0..15} \cup {16 * c + 3 : c \in 13..15}
Imms == { <<0, 0>>, <<1, 0>>, <<2, 0>>, <<3, 0>>, <<0, 32768>>, <<65535, 65535>>, <<65535, 32767>>, <<1, 32768>>, <<0, 1>>, <<4096, 0>>, <<4097, 7>>, <<21845, 43690>> }
I0 == 100
Usage0 == <<-1, 3, 99, 0, 57, -1, 12, 98>>
Word(o, d, s, m, p) == <<o, d, s, m, p[1] % 256, p[1] \div 256, p[2] % 256, p[2] \div 256>>

DecodeFacts(d, o, dd, ss, m, p) ==
  LET k == KindTable[o] IN
  /\ d.k = k
  /\ d.mask \in {0, L1Mask, L2Mask, L3Mask}
  /\ (d.mask # 0 => d.mask + 7 < 2097152)                                    \* an 8-byte access stays inside the scratchpad
  /\ (k \in MemReadKinds => d.mask = (IF dd % 8 = ss % 8 THEN L3Mask ELSE IF m % 4 = 0 THEN L2Mask ELSE L1Mask))
  /\ (k = "ISTORE" => d.mask = (IF m \div 16 >= 14 THEN L3Mask ELSE IF m % 4 = 0 THEN L2Mask ELSE L1Mask))
  /\ (k \in FpMemKinds => d.mask \in {L1Mask, L2Mask})
  \* last-writer table: only integer instructions and CBRANCH change it; a no-op changes nothing
  /\ (d.nop => d.usage = Usage0)
  /\ (k \notin IntKinds \cup {"CBRANCH"} => d.usage = Usage0)
  /\ (k \in IntKinds \ {"IMUL_RCP", "ISWAP_R"} => d.usage = [Usage0 EXCEPT ![(dd % 8) + 1] = I0])
  /\ (k = "IMUL_RCP" => (d.nop <=> IsZeroOrPow2Limbs(p)) /\ (~d.nop => (d.usage = [Usage0 EXCEPT ![(dd % 8) + 1] = I0] /\ IsRcp(p, d.imm))))
  /\ (k = "ISWAP_R" => (d.nop <=> dd % 8 = ss % 8))
  /\ (k = "CBRANCH" => /\ d.target = Usage0[(dd % 8) + 1] /\ d.target < I0 /\ d.target >= -1
                       /\ d.usage = [j \in 1..8 |-> I0]
                       /\ d.shift = (m \div 16) + 8 /\ d.shift \in 8..23
                       /\ WBit(d.imm, d.shift) = 1 /\ WBit(d.imm, d.shift - 1) = 0
                       \* all other bits are those of the sign-extended immediate
                       /\ \A bit \in 0..63 : (bit # d.shift /\ bit # d.shift - 1) => WBit(d.imm, bit) = WBit(SignExt32(p), bit))
  /\ (k = "IADD_RS" => d.shift = (m \div 4) % 4 /\ (d.imm # W0 => dd % 8 = 5))
  /\ (k = "CFROUND" => d.imm[1] < 64)

\* (IMUL_RCP reads neither src nor mod, and computing a reciprocal is expensive: fewer combinations there)
SrcSet == IF KindTable[op] = "IMUL_RCP" THEN {0} ELSE 0..8
ModSet == IF KindTable[op] = "IMUL_RCP" THEN {0} ELSE Mods
OpcodeOk == op >= 0 => \A dd \in 0..8, ss \in SrcSet, m \in ModSet, p \in Imms :
               DecodeFacts(Decode(Word(op, dd, ss, m, p), I0, Usage0), op, dd, ss, m, p)

\* every opcode is a successor of one hub state, so TLC's workers check them in parallel
\* (hub -1 -> 16 group states -2..-17 -> 16 opcodes each)
Init == op = -1
Next == \/ op = -1 /\ op' \in {-2 - g : g \in 0..15}
        \/ op <= -2 /\ op' \in {16 * (-2 - op) + j : j \in 0..15}
Spec == Init /\ [][Next]_op

(***************************************************************************)
(* reciprocal.c with a word of 2W bits and W-bit divisors:                 *)
(*   q = 2^(2W-1) div d ; r = 2^(2W-1) mod d ; s = bitlength(d)            *)
(*   result = (q << s) + ((r << s) div d)                                  *)
(* equals floor(2^(2W-1+s) / d) for every d that is not a power of two.    *)
(***************************************************************************)
BitLength(d) == CHOOSE n \in 1..30 : d >= 2^(n - 1) /\ d < 2^n
RcpAlg(W, d) == LET p == 2^(2 * W - 1)  s == BitLength(d)
                IN  (p \div d) * 2^s + ((p % d) * 2^s) \div d
RcpDef(W, d) == (2^(2 * W - 1 + BitLength(d))) \div d
IsPow2(d) == \E n \in 0..30 : d = 2^n
RcpScaledOk == \A W \in {4, 6, 8, 10} : \A d \in 1..(2^W - 1) : ~IsPow2(d) =>
                  (RcpAlg(W, d) = RcpDef(W, d) /\ RcpAlg(W, d) < 2^(2 * W) /\ RcpAlg(W, d) >= 2^(2 * W - 1))
ASSUME KindTableOk
ASSUME FreqTotalIs256
ASSUME RcpScaledOk
=============================================================================
