SPECIFICATION Spec
CONSTANTS
  Vms = {"v1", "v2"}
  Caches = {"c1"}
  NProg = 2
INVARIANT NoWX
INVARIANT NoFault
INVARIANT RestsExecutable
INVARIANT NoLeakedMapping
CHECK_DEADLOCK FALSE
