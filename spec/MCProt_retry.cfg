SPECIFICATION Spec
CONSTANTS
  Vms = {"v1", "v2"}
  Caches = {"c1"}
  NProg = 2
  RetryWithAll = TRUE
INVARIANT NoWX
INVARIANT NoFault
INVARIANT RestsExecutable
INVARIANT NoLeakedMapping
CHECK_DEADLOCK FALSE
