------------------------------- MODULE RxAlloc -------------------------------
(***************************************************************************)
(* Object lifecycle with failing memory requests (property C15).           *)
(*                                                                         *)
(* Each creating call of the public API is the sequence of acquisition     *)
(* steps the code performs, in code order; a step is a heap block, a page  *)
(* mapping or a large-page mapping of a named size class.  Any step may    *)
(* fail (the k-th request of the call, chosen by the action parameter);    *)
(* a large-page step also fails whenever the OS has no huge pages.         *)
(* Unwinding is written like the code: the catch block calls the release   *)
(* function, which frees a field only if it was set; an object under       *)
(* construction whose constructor throws is freed by the language.         *)
(*                                                                         *)
(*   alloc_cache(flags)   : cacheStruct ; [JIT: jitObj ; code] ; cacheMem  *)
(*   alloc_dataset(flags) : dsStruct ; dsMem                               *)
(*   create_vm(flags)     : vmObj ; [JIT: code] ; [long key: keyCopy] ;    *)
(*                          scratchpad                                     *)
(*   (cacheMem, dsMem, scratchpad are large-page mappings with LARGE_PAGES)*)
(***************************************************************************)
EXTENDS Integers, FiniteSets, Sequences, TLC

CONSTANTS Objs,            \* object identities
          HugeAvailable,   \* does the OS grant large pages
          DeallocEarlyOut  \* FALSE = the code as it is; TRUE = deallocCache returning early without memory (defect variant)

Ops == {"alloc_cache", "alloc_dataset", "create_vm"}
Flags == [jit : BOOLEAN, large : BOOLEAN, key : BOOLEAN]     \* key: the VM is bound to a cache whose key string does not fit the small-string buffer (> 15 bytes)

Heap(n) == [kind |-> "heap", name |-> n]
Map(n) == [kind |-> "map", name |-> n]
Huge(n) == [kind |-> "huge", name |-> n]
Mem(n, f) == IF f.large THEN Huge(n) ELSE Heap(n)

\* acquisition steps in code order
Steps(op, f) ==
  CASE op = "alloc_cache"   -> <<Heap("cacheStruct")>> \o (IF f.jit THEN <<Heap("jitObj"), Map("code")>> ELSE <<>>)
                               \o <<Mem("cacheMem", f)>>
    [] op = "alloc_dataset" -> <<Heap("dsStruct"), Mem("dsMem", f)>>
    [] op = "create_vm"     -> <<Heap("vmObj")>> \o (IF f.jit THEN <<Map("code")>> ELSE <<>>)
                               \o (IF f.key THEN <<Heap("keyCopy")>> ELSE <<>>)      \* vm->cacheKey = cache->cacheKey (inside the try block)
                               \o <<Mem("scratchpad", f)>>

VARIABLES live,      \* bag of live resources: set of <<object, step index>> (each step of an object at most once)
          obj,       \* [Objs -> [state, op, flags, fields]]; fields = set of step indices the object holds
          lastCall   \* record describing the outcome of the most recent call (observable result)
vars == <<live, obj, lastCall>>

NoObj == [state |-> "none", op |-> "none", flags |-> [jit |-> FALSE, large |-> FALSE, key |-> FALSE], fields |-> {}]
Init == live = {} /\ obj = [o \in Objs |-> NoObj] /\ lastCall = [op |-> "none"]

\* index of the first step that fails: the injected one, or a large-page step the OS refuses
FirstFailure(steps, failAt) ==
  LET bad == {i \in 1..Len(steps) : i = failAt \/ (steps[i].kind = "huge" /\ ~HugeAvailable)}
  IN  IF bad = {} THEN 0 ELSE CHOOSE i \in bad : \A j \in bad : i <= j

(***************************************************************************)
(* Unwinding after step `failed` threw, written like the code (randomx.cpp,*)
(* dataset.cpp, virtual_machine.cpp).  A field of the object is assigned    *)
(* only after its whole right-hand side succeeded, so at the moment of the *)
(* failure the object holds FieldsSet.  What is given back:                *)
(*  - byLanguage: a new-expression whose constructor throws frees the      *)
(*    block it had obtained (jitObj when mapping the code buffer fails in  *)
(*    the JitCompiler constructor; vmObj when the VM constructor throws);  *)
(*  - byRelease: the catch block calls randomx_release_cache /             *)
(*    randomx_release_dataset / `delete vm`: dealloc frees memory if set   *)
(*    and deletes the JIT compiler if set (its destructor unmaps the code  *)
(*    buffer); the VM destructors unmap the code buffer and free the       *)
(*    scratchpad pointer (null at this point: a no-op);                    *)
(*  - byDelete: the struct / VM object itself.                             *)
(* If `new randomx_cache()` itself fails nothing was acquired.             *)
(* DeallocEarlyOut = TRUE is a variant of deallocCache that returns early  *)
(* when no memory is set: then the JIT compiler of a half-built cache is   *)
(* never deleted (kept as a knob to show that the invariants are able to   *)
(* see such a leak: MCAlloc_earlyout.cfg is expected to fail).             *)
(***************************************************************************)
Idx(steps, n) == IF \E i \in 1..Len(steps) : steps[i].name = n
                 THEN CHOOSE i \in 1..Len(steps) : steps[i].name = n ELSE 0
FieldsSet(op, f, steps, failed) ==
  [struct |-> failed > 1,
   jit    |-> op = "alloc_cache" /\ f.jit /\ failed > Idx(steps, "code"),
   code   |-> op = "create_vm" /\ f.jit /\ failed > Idx(steps, "code"),
   memory |-> FALSE]                     \* the memory / scratchpad request is the last step of every creating call
Released(op, f, steps, failed) ==
  LET fs == FieldsSet(op, f, steps, failed)
      ctorThrew == f.jit /\ op \in {"alloc_cache", "create_vm"} /\ failed = Idx(steps, "code")
      byLanguage == IF ctorThrew THEN {failed - 1} ELSE {}      \* the block obtained right before the constructor ran
      byRelease ==
        CASE op = "alloc_cache" ->
               IF fs.jit /\ ~(DeallocEarlyOut /\ ~fs.memory) THEN {Idx(steps, "jitObj"), Idx(steps, "code")} ELSE {}
          [] op = "create_vm" -> (IF fs.code THEN {Idx(steps, "code")} ELSE {})
                                 \cup (IF Idx(steps, "keyCopy") \in 1..(failed - 1) THEN {Idx(steps, "keyCopy")} ELSE {})   \* member string, freed by the destructor
          [] OTHER -> {}
      \* alloc_cache / alloc_dataset: the struct exists once step 1 succeeded and is deleted by the release function;
      \* create_vm: `vm` is assigned only after the constructor returned, `delete vm` on nullptr is a no-op
      byDelete == CASE op = "create_vm" -> IF fs.struct /\ ~ctorThrew THEN {1} ELSE {}
                    [] OTHER -> IF fs.struct THEN {1} ELSE {}
  IN  byLanguage \cup byRelease \cup byDelete

Create(o, op, f, failAt) ==
  /\ obj[o].state = "none" /\ op \in Ops /\ f \in Flags
  /\ (op = "alloc_dataset" => ~f.jit)
  /\ (op # "create_vm" => ~f.key)
  /\ LET steps == Steps(op, f)
         ff == FirstFailure(steps, failAt)
     IN  /\ failAt \in 0..Len(steps)
         /\ IF ff = 0
            THEN /\ obj' = [obj EXCEPT ![o] = [state |-> "live", op |-> op, flags |-> f, fields |-> 1..Len(steps)]]
                 /\ live' = live \cup {<<o, i>> : i \in 1..Len(steps)}
                 /\ lastCall' = [op |-> op, flags |-> f, failAt |-> failAt, ok |-> TRUE, failed |-> 0,
                                 requests |-> steps, acquired |-> Len(steps), released |-> 0]
            ELSE /\ obj' = obj
                 \* acquired 1..ff-1, then unwinding releases Released(...)
                 /\ live' = (live \cup {<<o, i>> : i \in 1..(ff - 1)}) \ {<<o, i>> : i \in Released(op, f, steps, ff)}
                 /\ lastCall' = [op |-> op, flags |-> f, failAt |-> failAt, ok |-> FALSE, failed |-> ff,
                                 requests |-> SubSeq(steps, 1, ff), acquired |-> ff - 1,
                                 released |-> Cardinality(Released(op, f, steps, ff))]

\* release_cache / release_dataset / destroy_vm
Destroy(o) ==
  /\ obj[o].state = "live"
  /\ live' = live \ {<<o, i>> : i \in obj[o].fields}
  /\ obj' = [obj EXCEPT ![o] = NoObj]
  /\ lastCall' = [op |-> "release", of |-> obj[o].op, flags |-> obj[o].flags, released |-> Cardinality(obj[o].fields)]

Next == \/ \E o \in Objs, op \in Ops, f \in Flags, k \in 0..5 : Create(o, op, f, k)
        \/ \E o \in Objs : Destroy(o)
Spec == Init /\ [][Next]_vars

-----------------------------------------------------------------------------
\* every live resource belongs to a live object that holds it: nothing leaks, nothing is double-owned
NoLeak == live = UNION {{<<o, i>> : i \in obj[o].fields} : o \in {x \in Objs : obj[x].state = "live"}}
\* a failed creating call returns NULL and leaves the live set exactly as it was at entry
FailureIsClean == [][\A o \in Objs, op \in Ops, f \in Flags, k \in 0..5 :
                       (Create(o, op, f, k) /\ ~lastCall'.ok) => live' = live]_vars
\* release gives back everything the creation acquired
ReleaseGivesBack == [][\A o \in Objs : Destroy(o) => Cardinality(live') = Cardinality(live) - Cardinality(obj[o].fields)]_vars
\* after any history, with no objects alive the process holds nothing (repeated cycles do not grow)
CyclesDoNotGrow == (\A o \in Objs : obj[o].state = "none") => live = {}

\* counters observable from outside: heap blocks and mapped regions held
HeapBlocks == Cardinality({p \in live : Steps(obj[p[1]].op, obj[p[1]].flags)[p[2]].kind = "heap"})
=============================================================================
