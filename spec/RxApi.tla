-------------------------------- MODULE RxApi --------------------------------
(***************************************************************************)
(* The public API of RandomX as a state machine over object histories      *)
(* (property C03; the FP-word part of C13 rides on the same actions).       *)
(*                                                                         *)
(* Objects: caches, datasets, VMs.  The library keeps raw pointers between *)
(* them, the allocator may hand a released address to the next allocation, *)
(* and two API functions contain "skip if nothing changed" shortcuts.  The *)
(* spec therefore models                                                   *)
(*   - struct addresses and memory addresses of caches separately (the     *)
(*     cache struct comes from operator new, its 256 MiB buffer from an    *)
(*     aligned allocation; they are recycled independently), plus a        *)
(*     foreign allocation that may take a struct slot;                     *)
(*   - what a VM actually holds: cachePtr, memPtr, the key string copied   *)
(*     at bind time (keySeen), for a compiled light VM the key whose       *)
(*     SuperscalarHash code sits in its own code buffer (ssKey), the       *)
(*     version flag inside the VM and its copy inside the JIT compiler;    *)
(*   - the shortcuts exactly as the code decides them:                     *)
(*       init_cache  re-initialises  iff key differs or cache uninitialised*)
(*       set_cache   rebinds         iff RebindNeeded (see below)          *)
(*   - a digest as a PROVENANCE record: which key's Argon2 fill and which  *)
(*     key's SuperscalarHash programs were read, which input seeded the    *)
(*     scratchpad, which version the VM and the compiler used, which       *)
(*     rounding mode the first program started in.                         *)
(* Every nondeterministic choice (addresses, rounding mode left by a       *)
(* program) is an action parameter, so an edge label of TLC's state graph  *)
(* determines the call a replay harness has to make.                       *)
(*                                                                         *)
(* Contract (randomx.h) as enabling conditions: a VM is hashed only while  *)
(* the cache/dataset the caller bound last is alive and initialised; after *)
(* the cache was re-keyed the caller calls set_cache before hashing; a     *)
(* first/next/last pipeline is contiguous on its VM.                       *)
(***************************************************************************)
EXTENDS Integers, FiniteSets, Sequences, TLC

CONSTANTS Keys, Inputs, Caches, Vms, Datasets, SAddrs, MAddrs, DAddrs,
          LightKinds,        \* subset of {"IL","CL"}  (interpreted / compiled light)
          FullKinds,         \* subset of {"IF","CF"}  (interpreted / compiled full memory)
          NChunks,           \* dataset is initialised in NChunks range calls
          IdentityCheck,     \* TRUE: set_cache also compares the cache object (repaired rule)
          EnablePipeline, EnableV2, EnableForeign, EnableRc

None == "none"
Kinds == LightKinds \cup FullKinds
IsLight(k) == k \in {"IL", "CL"}
IsCompiled(k) == k \in {"CL", "CF"}

VARIABLES cache,     \* [Caches -> [live, key, s, m]]           the randomx_cache objects
          sOwner,    \* [SAddrs -> "free" | cache id | "app"]    who owns each struct slot
          mOwner,    \* [MAddrs -> "free" | cache id]
          mContent,  \* [MAddrs -> key | None]                   whose Argon2 fill is stored there
          ds,        \* [Datasets -> [live, m, chunk]]           chunk: [1..NChunks -> key | None]
          dOwner,    \* [DAddrs -> "free" | dataset id]
          vm,        \* [Vms -> record]  see NoVm / NewVm
          bnd,       \* ghost: [Vms -> cache/dataset id the CALLER bound last | None]
          stale,     \* ghost: [Vms -> BOOLEAN] bound cache was re-keyed since the last set_cache
          rc,        \* rounding mode of the (single) calling thread, 0..3
          last       \* <<provenance of the most recent completed hash>>, or <<>>

vars == <<cache, sOwner, mOwner, mContent, ds, dOwner, vm, bnd, stale, rc, last>>

NoCache == [live |-> FALSE, key |-> None, s |-> None, m |-> None]
NoDs == [live |-> FALSE, m |-> None, chunk |-> [j \in 1..NChunks |-> None]]
NoVm == [live |-> FALSE, kind |-> None, v2 |-> FALSE, compV2 |-> FALSE, cachePtr |-> None, memPtr |-> None,
         keySeen |-> None, ssKey |-> None, dsPtr |-> None, dsMem |-> None, sp |-> None, pend |-> None]

Init == /\ cache = [c \in Caches |-> NoCache]
        /\ sOwner = [s \in SAddrs |-> "free"]
        /\ mOwner = [m \in MAddrs |-> "free"]
        /\ mContent = [m \in MAddrs |-> None]
        /\ ds = [d \in Datasets |-> NoDs]
        /\ dOwner = [a \in DAddrs |-> "free"]
        /\ vm = [v \in Vms |-> NoVm]
        /\ bnd = [v \in Vms |-> None]
        /\ stale = [v \in Vms |-> FALSE]
        /\ rc = 0
        /\ last = <<>>

-----------------------------------------------------------------------------
(* caches *)
AllocCache(c, s, m) ==
  /\ ~cache[c].live /\ sOwner[s] = "free" /\ mOwner[m] = "free"
  /\ cache' = [cache EXCEPT ![c] = [live |-> TRUE, key |-> None, s |-> s, m |-> m]]
  /\ sOwner' = [sOwner EXCEPT ![s] = c]
  /\ mOwner' = [mOwner EXCEPT ![m] = c]
  /\ mContent' = [mContent EXCEPT ![m] = None]        \* fresh allocation: no valid fill
  /\ UNCHANGED <<ds, dOwner, vm, bnd, stale, rc, last>>

\* randomx_init_cache: skipped iff same key and initialised
InitCacheSkips(c, k) == cache[c].key = k
InitCache(c, k) ==
  /\ cache[c].live
  /\ IF InitCacheSkips(c, k) THEN UNCHANGED <<cache, mContent, stale>>
     ELSE /\ cache' = [cache EXCEPT ![c].key = k]
          /\ mContent' = [mContent EXCEPT ![cache[c].m] = k]
          \* every VM the caller bound to this cache now needs set_cache (contract)
          /\ stale' = [v \in Vms |-> IF bnd[v] = c THEN TRUE ELSE stale[v]]
  /\ UNCHANGED <<sOwner, mOwner, ds, dOwner, vm, bnd, rc, last>>

ReleaseCache(c) ==
  /\ cache[c].live
  /\ cache' = [cache EXCEPT ![c] = NoCache]
  /\ sOwner' = [sOwner EXCEPT ![cache[c].s] = "free"]
  /\ mOwner' = [mOwner EXCEPT ![cache[c].m] = "free"]
  \* the caller's binding to the released object is void (ids are recycled for new objects)
  /\ bnd' = [v \in Vms |-> IF bnd[v] = c THEN None ELSE bnd[v]]
  /\ UNCHANGED <<mContent, ds, dOwner, vm, stale, rc, last>>

\* a foreign allocation of the application lands in a free struct slot / gives it back
AppMalloc(s) == /\ EnableForeign /\ sOwner[s] = "free"
                /\ sOwner' = [sOwner EXCEPT ![s] = "app"]
                /\ UNCHANGED <<cache, mOwner, mContent, ds, dOwner, vm, bnd, stale, rc, last>>
AppFree(s) == /\ EnableForeign /\ sOwner[s] = "app"
              /\ sOwner' = [sOwner EXCEPT ![s] = "free"]
              /\ UNCHANGED <<cache, mOwner, mContent, ds, dOwner, vm, bnd, stale, rc, last>>

-----------------------------------------------------------------------------
(* datasets *)
AllocDataset(d, a) ==
  /\ ~ds[d].live /\ dOwner[a] = "free"
  /\ ds' = [ds EXCEPT ![d] = [live |-> TRUE, m |-> a, chunk |-> [j \in 1..NChunks |-> None]]]
  /\ dOwner' = [dOwner EXCEPT ![a] = d]
  /\ UNCHANGED <<cache, sOwner, mOwner, mContent, vm, bnd, stale, rc, last>>

InitDatasetChunk(d, c, j) ==
  /\ ds[d].live /\ cache[c].live /\ cache[c].key # None /\ j \in 1..NChunks
  /\ ds' = [ds EXCEPT ![d].chunk[j] = cache[c].key]
  /\ UNCHANGED <<cache, sOwner, mOwner, mContent, dOwner, vm, bnd, stale, rc, last>>

ReleaseDataset(d) ==
  /\ ds[d].live
  /\ ds' = [ds EXCEPT ![d] = NoDs]
  /\ dOwner' = [dOwner EXCEPT ![ds[d].m] = "free"]
  /\ bnd' = [v \in Vms |-> IF bnd[v] = d THEN None ELSE bnd[v]]
  /\ UNCHANGED <<cache, sOwner, mOwner, mContent, vm, stale, rc, last>>

DsKey(d) == IF \E k \in Keys : \A j \in 1..NChunks : ds[d].chunk[j] = k
            THEN ds[d].chunk[1] ELSE None

-----------------------------------------------------------------------------
(* virtual machines *)
\* what VM::setCache does for a light VM
BindCache(r, c) ==
  [r EXCEPT !.cachePtr = cache[c].s, !.memPtr = cache[c].m, !.keySeen = cache[c].key,
            !.ssKey = IF r.kind = "CL" THEN cache[c].key ELSE r.ssKey]
\* what VM::setDataset does
BindDataset(r, d) ==
  [r EXCEPT !.dsPtr = d, !.dsMem = IF r.kind = "IF" THEN ds[d].m ELSE r.dsMem]

CreateVmLight(v, kind, c, v2) ==
  /\ ~vm[v].live /\ kind \in LightKinds /\ cache[c].live /\ cache[c].key # None
  /\ (v2 => EnableV2)
  /\ vm' = [vm EXCEPT ![v] = BindCache([NoVm EXCEPT !.live = TRUE, !.kind = kind, !.v2 = v2,
                                                    !.compV2 = IF IsCompiled(kind) THEN v2 ELSE FALSE], c)]
  /\ bnd' = [bnd EXCEPT ![v] = c]
  /\ stale' = [stale EXCEPT ![v] = FALSE]
  /\ UNCHANGED <<cache, sOwner, mOwner, mContent, ds, dOwner, rc, last>>

CreateVmFull(v, kind, d, v2) ==
  /\ ~vm[v].live /\ kind \in FullKinds /\ ds[d].live
  /\ (v2 => EnableV2)
  /\ vm' = [vm EXCEPT ![v] = BindDataset([NoVm EXCEPT !.live = TRUE, !.kind = kind, !.v2 = v2,
                                                      !.compV2 = IF IsCompiled(kind) THEN v2 ELSE FALSE], d)]
  /\ bnd' = [bnd EXCEPT ![v] = d]
  /\ stale' = [stale EXCEPT ![v] = FALSE]
  /\ UNCHANGED <<cache, sOwner, mOwner, mContent, ds, dOwner, rc, last>>

\* randomx_vm_set_cache: the shortcut as the code decides it
RebindNeeded(v, c) ==
  \/ vm[v].keySeen # cache[c].key
  \/ vm[v].memPtr # cache[c].m
  \/ (IdentityCheck /\ vm[v].cachePtr # cache[c].s)
\* on a full-memory VM the call is allowed too: the base class ignores the cache, only the remembered key is updated; the VM keeps
\* hashing over its dataset
\* The call is also allowed while a pipelined hash is pending (between hash_first / hash_next and hash_next / hash_last): what is pending
\* is the input and the scratchpad filled from it, neither depends on the cache; the pending hash is then computed over the data bound
\* when its programs run (ExpectedKey at HashNext / HashLast), and the rebinding leaves sp / pend alone.
SetCache(v, c) ==
  /\ vm[v].live
  /\ cache[c].live /\ cache[c].key # None
  /\ IF IsLight(vm[v].kind)
     THEN /\ vm' = [vm EXCEPT ![v] = IF RebindNeeded(v, c) THEN BindCache(vm[v], c) ELSE vm[v]]
          /\ bnd' = [bnd EXCEPT ![v] = c]
          /\ stale' = [stale EXCEPT ![v] = FALSE]
     ELSE /\ vm' = [vm EXCEPT ![v].keySeen = cache[c].key]
          /\ UNCHANGED <<bnd, stale>>
  /\ UNCHANGED <<cache, sOwner, mOwner, mContent, ds, dOwner, rc, last>>

\* on a light VM the call is allowed and has no effect (the light classes override setDataset with an empty body)
SetDataset(v, d) ==
  /\ vm[v].live /\ vm[v].pend = None /\ ds[d].live
  /\ IF IsLight(vm[v].kind) THEN UNCHANGED <<vm, bnd>>
     ELSE /\ vm' = [vm EXCEPT ![v] = BindDataset(vm[v], d)]
          /\ bnd' = [bnd EXCEPT ![v] = d]
  /\ UNCHANGED <<cache, sOwner, mOwner, mContent, ds, dOwner, stale, rc, last>>

SetV2(v, on) ==
  /\ EnableV2 /\ vm[v].live /\ vm[v].pend = None /\ vm[v].v2 # on
  /\ vm' = [vm EXCEPT ![v].v2 = on, ![v].compV2 = IF IsCompiled(vm[v].kind) THEN on ELSE vm[v].compV2]
  /\ UNCHANGED <<cache, sOwner, mOwner, mContent, ds, dOwner, bnd, stale, rc, last>>

DestroyVm(v) ==
  /\ vm[v].live
  /\ vm' = [vm EXCEPT ![v] = NoVm]
  /\ bnd' = [bnd EXCEPT ![v] = None]
  /\ stale' = [stale EXCEPT ![v] = FALSE]
  /\ UNCHANGED <<cache, sOwner, mOwner, mContent, ds, dOwner, rc, last>>

-----------------------------------------------------------------------------
(* hashing *)
\* the caller may hash on v (documented contract)
MayHash(v) ==
  /\ vm[v].live /\ bnd[v] # None
  /\ IF IsLight(vm[v].kind)
     THEN cache[bnd[v]].live /\ cache[bnd[v]].key # None /\ ~stale[v]
     ELSE ds[bnd[v]].live /\ DsKey(bnd[v]) # None

\* the key the caller expects the digest to be for
ExpectedKey(v) == IF IsLight(vm[v].kind) THEN cache[bnd[v]].key ELSE DsKey(bnd[v])

\* does the VM dereference only live objects of this library when it runs?
Dangling(v) ==
  CASE vm[v].kind = "IL" -> sOwner[vm[v].cachePtr] \notin Caches      \* reads cachePtr->programs/memory
    [] vm[v].kind = "CL" -> mOwner[vm[v].memPtr] \notin Caches        \* reads mem.memory, own code
    [] vm[v].kind = "IF" -> dOwner[vm[v].dsMem] \notin Datasets       \* cached dataset->memory
    [] vm[v].kind = "CF" -> ~ds[vm[v].dsPtr].live                     \* re-reads datasetPtr->memory
    [] OTHER -> TRUE

\* keys whose data the VM reads: <<Argon2 fill / dataset items, SuperscalarHash programs>>
DataKeys(v) ==
  CASE vm[v].kind = "IL" -> LET c == sOwner[vm[v].cachePtr] IN <<mContent[cache[c].m], cache[c].key>>
    [] vm[v].kind = "CL" -> <<mContent[vm[v].memPtr], vm[v].ssKey>>
    [] vm[v].kind = "IF" -> LET d == dOwner[vm[v].dsMem] IN <<DsKey(d), DsKey(d)>>
    [] vm[v].kind = "CF" -> <<DsKey(vm[v].dsPtr), DsKey(vm[v].dsPtr)>>

Prov(v, in, spFrom, rcStart) ==
  [v |-> v, input |-> in, sp |-> spFrom, v2 |-> vm[v].v2,
   compV2 |-> IF IsCompiled(vm[v].kind) THEN vm[v].compV2 ELSE vm[v].v2,
   rcStart |-> rcStart, dangling |-> Dangling(v),
   keys |-> IF Dangling(v) THEN <<None, None>> ELSE DataKeys(v),
   expected |-> ExpectedKey(v)]

\* the digest is the one fresh objects would give for (expected key, input, version)
Clean(p) == /\ ~p.dangling
            /\ p.keys[1] = p.expected /\ p.keys[2] = p.expected
            /\ p.sp = p.input
            /\ p.compV2 = p.v2
            /\ p.rcStart = 0

RcOk(r) == r \in 0..3 /\ (EnableRc \/ r = 0)

\* randomx_calculate_hash: save FP word, seed+fill, RESET rounding, 8 programs (the last leaves
\* rounding mode rcEnd), result, RESTORE FP word
Hash(v, in, rcEnd) ==
  /\ MayHash(v) /\ vm[v].pend = None /\ in \in Inputs /\ RcOk(rcEnd)
  /\ last' = <<Prov(v, in, in, 0)>>
  /\ vm' = [vm EXCEPT ![v].sp = in]
  /\ rc' = rc                                         \* restored
  /\ UNCHANGED <<cache, sOwner, mOwner, mContent, ds, dOwner, bnd, stale>>

\* randomx_calculate_hash_first: seed + fill only, no reset
\* (it runs no program; like the other pipelined calls it is free to leave the rounding mode changed)
HashFirst(v, in, rcEnd) ==
  /\ EnablePipeline /\ MayHash(v) /\ vm[v].pend = None /\ in \in Inputs /\ RcOk(rcEnd)
  /\ vm' = [vm EXCEPT ![v].sp = in, ![v].pend = in]
  /\ rc' = rcEnd
  /\ UNCHANGED <<cache, sOwner, mOwner, mContent, ds, dOwner, bnd, stale, last>>

\* randomx_calculate_hash_next: RESET, 8 programs, result for the pending input, refill for in2
HashNext(v, in2, rcEnd) ==
  /\ EnablePipeline /\ MayHash(v) /\ vm[v].pend # None /\ in2 \in Inputs /\ RcOk(rcEnd)
  /\ last' = <<Prov(v, vm[v].pend, vm[v].sp, 0)>>
  /\ vm' = [vm EXCEPT ![v].sp = in2, ![v].pend = in2]
  /\ rc' = rcEnd                                      \* documented: may leave the mode changed
  /\ UNCHANGED <<cache, sOwner, mOwner, mContent, ds, dOwner, bnd, stale>>

HashLast(v, rcEnd) ==
  /\ EnablePipeline /\ MayHash(v) /\ vm[v].pend # None /\ RcOk(rcEnd)
  /\ last' = <<Prov(v, vm[v].pend, vm[v].sp, 0)>>
  /\ vm' = [vm EXCEPT ![v].pend = None]
  /\ rc' = rcEnd
  /\ UNCHANGED <<cache, sOwner, mOwner, mContent, ds, dOwner, bnd, stale>>

-----------------------------------------------------------------------------
Next ==
  \/ \E c \in Caches, s \in SAddrs, m \in MAddrs : AllocCache(c, s, m)
  \/ \E c \in Caches, k \in Keys : InitCache(c, k)
  \/ \E c \in Caches : ReleaseCache(c)
  \/ \E s \in SAddrs : AppMalloc(s) \/ AppFree(s)
  \/ \E d \in Datasets, a \in DAddrs : AllocDataset(d, a)
  \/ \E d \in Datasets, c \in Caches, j \in 1..NChunks : InitDatasetChunk(d, c, j)
  \/ \E d \in Datasets : ReleaseDataset(d)
  \/ \E v \in Vms, kind \in LightKinds, c \in Caches, v2 \in BOOLEAN : CreateVmLight(v, kind, c, v2)
  \/ \E v \in Vms, kind \in FullKinds, d \in Datasets, v2 \in BOOLEAN : CreateVmFull(v, kind, d, v2)
  \/ \E v \in Vms, c \in Caches : SetCache(v, c)
  \/ \E v \in Vms, d \in Datasets : SetDataset(v, d)
  \/ \E v \in Vms, on \in BOOLEAN : SetV2(v, on)
  \/ \E v \in Vms : DestroyVm(v)
  \/ \E v \in Vms, in \in Inputs, r \in 0..3 : Hash(v, in, r)
  \/ \E v \in Vms, in \in Inputs, r \in 0..3 : HashFirst(v, in, r)
  \/ \E v \in Vms, in \in Inputs, r \in 0..3 : HashNext(v, in, r)
  \/ \E v \in Vms, r \in 0..3 : HashLast(v, r)

Spec == Init /\ [][Next]_vars

-----------------------------------------------------------------------------
(* properties *)
HistoryIndependence == last # <<>> => Clean(last[1])
NoDangling == last # <<>> => ~last[1].dangling
\* stronger, state-based form: a VM the caller may hash on never holds a dangling pointer
NoDanglingState == \A v \in Vms : MayHash(v) => ~Dangling(v)
\* and always reads the data of the key the caller expects
ReadsExpected == \A v \in Vms : (MayHash(v) /\ ~Dangling(v)) =>
                    (DataKeys(v)[1] = ExpectedKey(v) /\ DataKeys(v)[2] = ExpectedKey(v))
\* version flag inside the compiler always equals the VM's
V2InSync == \A v \in Vms : (vm[v].live /\ IsCompiled(vm[v].kind)) => vm[v].compV2 = vm[v].v2
\* a pipelined result is for the scratchpad that was filled for it
PipelineSp == \A v \in Vms : (vm[v].live /\ vm[v].pend # None) => vm[v].sp = vm[v].pend

TypeOK == /\ \A c \in Caches : cache[c].live => (sOwner[cache[c].s] = c /\ mOwner[cache[c].m] = c)
          /\ \A s \in SAddrs : sOwner[s] \in Caches => cache[sOwner[s]].s = s
          /\ \A m \in MAddrs : mOwner[m] \in Caches => cache[mOwner[m]].m = m
          /\ \A c \in Caches : (cache[c].live /\ cache[c].key # None) => mContent[cache[c].m] = cache[c].key
          /\ rc \in 0..3
=============================================================================
