------------------------------ MODULE RxApiSim ------------------------------
(***************************************************************************)
(* Scenario generator: RxApi with a history variable that records every    *)
(* action with its parameters and the decision the specification predicts  *)
(* (skip / rebind / expected key / clean).  Run with  tlc -simulate ; each *)
(* behaviour that reaches HLen steps is printed as one JSON line, which    *)
(* the replay harness executes against the real library (spec -> code).    *)
(***************************************************************************)
EXTENDS RxApi, Json
CONSTANT HLen
VARIABLE hist
svars == <<vars, hist>>

Rec(r) == hist' = Append(hist, r)
Feat(v) == [kind |-> vm[v].kind, v2 |-> vm[v].v2]

SimInit == Init /\ hist = <<>>
SimNext ==
  \/ \E c \in Caches, s \in SAddrs, m \in MAddrs :
        AllocCache(c, s, m) /\ Rec([a |-> "AllocCache", c |-> c, s |-> s, m |-> m])
  \/ \E c \in Caches, k \in Keys :
        InitCache(c, k) /\ Rec([a |-> "InitCache", c |-> c, k |-> k, skip |-> InitCacheSkips(c, k)])
  \/ \E c \in Caches : ReleaseCache(c) /\ Rec([a |-> "ReleaseCache", c |-> c])
  \/ \E s \in SAddrs : AppMalloc(s) /\ Rec([a |-> "AppMalloc", s |-> s])
  \/ \E s \in SAddrs : AppFree(s) /\ Rec([a |-> "AppFree", s |-> s])
  \/ \E d \in Datasets, a \in DAddrs : AllocDataset(d, a) /\ Rec([a |-> "AllocDataset", d |-> d, m |-> a])
  \/ \E d \in Datasets, c \in Caches, j \in 1..NChunks :
        InitDatasetChunk(d, c, j) /\ Rec([a |-> "InitDatasetChunk", d |-> d, c |-> c, j |-> j])
  \/ \E d \in Datasets : ReleaseDataset(d) /\ Rec([a |-> "ReleaseDataset", d |-> d])
  \/ \E v \in Vms, kind \in LightKinds, c \in Caches, v2 \in BOOLEAN :
        CreateVmLight(v, kind, c, v2) /\ Rec([a |-> "CreateVm", v |-> v, kind |-> kind, c |-> c, d |-> None, v2 |-> v2])
  \/ \E v \in Vms, kind \in FullKinds, d \in Datasets, v2 \in BOOLEAN :
        CreateVmFull(v, kind, d, v2) /\ Rec([a |-> "CreateVm", v |-> v, kind |-> kind, c |-> None, d |-> d, v2 |-> v2])
  \/ \E v \in Vms, c \in Caches :
        SetCache(v, c) /\ Rec([a |-> "SetCache", v |-> v, c |-> c, rebind |-> RebindNeeded(v, c),
                               sameKey |-> vm[v].keySeen = cache[c].key, sameMem |-> vm[v].memPtr = cache[c].m,
                               sameObj |-> vm[v].cachePtr = cache[c].s, kind |-> vm[v].kind])
  \/ \E v \in Vms, d \in Datasets : SetDataset(v, d) /\ Rec([a |-> "SetDataset", v |-> v, d |-> d])
  \/ \E v \in Vms, on \in BOOLEAN : SetV2(v, on) /\ Rec([a |-> "SetV2", v |-> v, on |-> on, kind |-> vm[v].kind])
  \/ \E v \in Vms : DestroyVm(v) /\ Rec([a |-> "DestroyVm", v |-> v])
  \/ \E v \in Vms, in \in Inputs, r \in 0..3 :
        Hash(v, in, r) /\ Rec([a |-> "Hash", v |-> v, in |-> in, rcEnd |-> r, key |-> ExpectedKey(v), f |-> Feat(v)])
  \/ \E v \in Vms, in \in Inputs :
        HashFirst(v, in, rc) /\ Rec([a |-> "HashFirst", v |-> v, in |-> in, f |-> Feat(v)])
  \/ \E v \in Vms, in \in Inputs, r \in 0..3 :
        HashNext(v, in, r) /\ Rec([a |-> "HashNext", v |-> v, in |-> in, pin |-> vm[v].pend, rcEnd |-> r, key |-> ExpectedKey(v), f |-> Feat(v)])
  \/ \E v \in Vms, r \in 0..3 :
        HashLast(v, r) /\ Rec([a |-> "HashLast", v |-> v, pin |-> vm[v].pend, rcEnd |-> r, key |-> ExpectedKey(v), f |-> Feat(v)])

SimSpec == SimInit /\ [][SimNext]_svars

\* prints each behaviour once it is HLen steps long, and stops it there
Emit == IF Len(hist) = HLen THEN PrintT(<<"SCN", ToJson(hist)>>) /\ FALSE ELSE TRUE
=============================================================================
