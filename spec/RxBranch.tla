------------------------------- MODULE RxBranch -------------------------------
(***************************************************************************)
(* Termination of RandomX programs (property C07) reduced to two finite    *)
(* checks.                                                                 *)
(*                                                                         *)
(* (1) Arithmetic lemma, by carry abstraction.  A CBRANCH with condition   *)
(* position b adds cimm to its register and jumps iff bits b..b+7 of the   *)
(* sum are zero.  By construction cimm has bit b = 1 and bit b-1 = 0.  Of  *)
(* the register only bit b-1 (x) and the 8-bit field matter; all lower     *)
(* bits are abstracted into an arbitrary carry c into bit b-1 at each      *)
(* addition (over-approximation), bits above the field are irrelevant:     *)
(*      x' = (x + c) mod 2 ,  field' = (field + cf + (x /\ c)) mod 256     *)
(* where cf, the field of cimm, is odd.  Lemma: whatever x, field, cf and  *)
(* the three carries are, the branch is not taken three times in a row     *)
(* (the register is not modified in between - see (2)).                    *)
(*                                                                         *)
(* (2) Structural machine.  Programs over abstract instruction kinds on a  *)
(* small register set, decoded with the last-writer rule of RxIsa:         *)
(*   W(d)      writes register d            (any integer instruction)      *)
(*   S(d,s)    swaps d and s, d # s         (ISWAP_R)                      *)
(*   N         touches no integer register  (FP, store, CFROUND, no-ops)   *)
(*   B(d)      CBRANCH on d: target = last writer of d, then marks all     *)
(* Execution chooses `taken` nondeterministically, constrained only by the *)
(* lemma (at most two consecutive takes).  TLC checks for every program    *)
(* and every run: a loop body contains neither a branch nor a writer of    *)
(* the branch register, every slot executes at most three times, and the   *)
(* run reaches the end of the program.                                     *)
(***************************************************************************)
EXTENDS Integers, FiniteSets, Sequences, TLC

CONSTANTS N,        \* program length
          Regs      \* register names, e.g. 0..2

\* ---- (1) the lemma ------------------------------------------------------------------------------
Add(x, field, cf, c) == [x |-> (x + c) % 2, field |-> (field + cf + (IF x = 1 /\ c = 1 THEN 1 ELSE 0)) % 256]
Taken(s) == s.field = 0
OddFields == {f \in 0..255 : f % 2 = 1}
Lemma == \A x \in 0..1, field \in 0..255, cf \in OddFields, c1 \in 0..1, c2 \in 0..1, c3 \in 0..1 :
            LET s1 == Add(x, field, cf, c1)
                s2 == Add(s1.x, s1.field, cf, c2)
                s3 == Add(s2.x, s2.field, cf, c3)
            IN  ~(Taken(s1) /\ Taken(s2) /\ Taken(s3))
\* not vacuous: two takes in a row do happen
TwoTakesPossible == \E x \in 0..1, field \in 0..255, cf \in OddFields, c1 \in 0..1, c2 \in 0..1 :
            LET s1 == Add(x, field, cf, c1)
                s2 == Add(s1.x, s1.field, cf, c2)
            IN  Taken(s1) /\ Taken(s2)
\* the lemma fails without the cleared bit b-1 (cimm bit b-1 free: an extra addend y at bit b-1)
AddFree(x, field, cf, y, c) == [x |-> (x + y + c) % 2, field |-> (field + cf + ((x + y + c) \div 2)) % 256]
LemmaNeedsClearedBit == \E x \in 0..1, field \in 0..255, cf \in OddFields, y \in 0..1, c1 \in 0..1, c2 \in 0..1, c3 \in 0..1 :
            LET s1 == AddFree(x, field, cf, y, c1)
                s2 == AddFree(s1.x, s1.field, cf, y, c2)
                s3 == AddFree(s2.x, s2.field, cf, y, c3)
            IN  Taken(s1) /\ Taken(s2) /\ Taken(s3)

\* ---- (2) the structural machine -----------------------------------------------------------------
Instrs == {[k |-> "W", d |-> d, s |-> d] : d \in Regs} \cup {[k |-> "S", d |-> x[1], s |-> x[2]] : x \in {y \in Regs \X Regs : y[1] # y[2]}}
          \cup {[k |-> "N", d |-> 0, s |-> 0]} \cup {[k |-> "B", d |-> d, s |-> d] : d \in Regs}

\* last-writer table after instruction i (0-based) of program p; -1 = unmodified
RECURSIVE UsageAfter(_, _)
UsageAfter(p, i) ==
  IF i < 0 THEN [r \in Regs |-> -1]
  ELSE LET u == UsageAfter(p, i - 1)
           ins == p[i + 1]
       IN  CASE ins.k = "W" -> [u EXCEPT ![ins.d] = i]
             [] ins.k = "S" -> [u EXCEPT ![ins.d] = i, ![ins.s] = i]
             [] ins.k = "B" -> [r \in Regs |-> i]
             [] OTHER -> u
Target(p, i) == UsageAfter(p, i - 1)[p[i + 1].d]        \* for a branch at i

VARIABLES prog, pc, count, streak    \* count[i] executions of slot i; streak[i] consecutive takes of branch i
vars == <<prog, pc, count, streak>>
Init == /\ prog \in [1..N -> Instrs]
        /\ pc = 0 /\ count = [i \in 0..(N - 1) |-> 0] /\ streak = [i \in 0..(N - 1) |-> 0]
Step == /\ pc < N
        /\ count' = [count EXCEPT ![pc] = count[pc] + 1]
        /\ IF prog[pc + 1].k = "B"
           THEN \/ /\ streak[pc] < 2                                  \* taken (lemma: never a third time in a row)
                   /\ streak' = [streak EXCEPT ![pc] = streak[pc] + 1]
                   /\ pc' = Target(prog, pc) + 1
                \/ /\ streak' = [streak EXCEPT ![pc] = 0]              \* not taken
                   /\ pc' = pc + 1
           ELSE pc' = pc + 1 /\ UNCHANGED streak
        /\ UNCHANGED prog
Next == Step
Spec == Init /\ [][Next]_vars

Writes(ins, r) == (ins.k = "W" /\ ins.d = r) \/ (ins.k = "S" /\ (ins.d = r \/ ins.s = r)) \/ ins.k = "B"
\* the loop body of every branch contains no branch and no writer of the branch register
BodyClean == \A i \in 0..(N - 1) : prog[i + 1].k = "B" =>
                LET t == Target(prog, i) IN
                /\ t >= -1 /\ t < i
                /\ \A j \in (t + 1)..(i - 1) : ~Writes(prog[j + 1], prog[i + 1].d)
Budget == /\ \A i \in 0..(N - 1) : count[i] <= 3
Terminates == pc = N \/ ENABLED Step
\* liveness: under weak fairness of the step relation every run reaches the end of the program
FairSpec == Spec /\ WF_vars(Step)
EventuallyDone == <>(pc = N)
ASSUME Lemma /\ TwoTakesPossible /\ LemmaNeedsClearedBit
=============================================================================
