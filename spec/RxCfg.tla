--------------------------------- MODULE RxCfg ---------------------------------
(***************************************************************************)
(* Configuration independence (property C01; build dimension for C17).     *)
(*                                                                         *)
(* The digest abstraction D(key, input, version) has NO configuration      *)
(* argument: whatever engine computes it, the value is the same.  The      *)
(* configuration lattice is data:                                          *)
(*   VM    : interpreter / JIT / JIT+SECURE  x  soft / hard AES            *)
(*           x  light / full memory  [x large pages where the OS has them] *)
(*   cache : default / JIT initialiser  x  Argon2 ref / SSSE3 / AVX2       *)
(*   dataset prepared by the interpreted or the compiled initialiser       *)
(*   build : default / portable (C17)                                      *)
(* Dispatch(flags) is the class randomx_create_vm must instantiate for a   *)
(* flag word (the 24-way switch in randomx.cpp); SECURE only matters with  *)
(* JIT.  TLC enumerates every supported tuple, "runs" it, and checks that  *)
(* all digests of one (key, input, version) coincide and that dispatch     *)
(* reaches the intended engine.                                            *)
(***************************************************************************)
EXTENDS Integers, FiniteSets, Sequences, TLC

CONSTANTS Keys, Inputs

FLargePages == 1   FHardAes == 2   FFullMem == 4   FJit == 8   FSecure == 16   FV2 == 128
Has(f, bit) == (f \div bit) % 2 = 1

VmFlagSets == {f \in 0..31 : (Has(f, FSecure) => Has(f, FJit)) /\ ~Has(f, FLargePages)}
CacheCfgs == [jit : BOOLEAN, argon : {"ref", "ssse3", "avx2"}]
Builds == {"default", "portable"}

\* the class the 24-way switch must select
Dispatch(f) == [compiled |-> Has(f, FJit), light |-> ~Has(f, FFullMem), softAes |-> ~Has(f, FHardAes),
                secure |-> Has(f, FJit) /\ Has(f, FSecure), large |-> Has(f, FLargePages)]

\* the digest as a provenance term without any configuration component
D(k, i, v2) == <<"randomx", k, i, v2>>

VARIABLES done     \* set of completed hashes: [key, input, v2, vm, cache, build, digest]
Init == done = {}
Run(k, i, v2, f, c, b) ==
  /\ f \in VmFlagSets /\ c \in CacheCfgs /\ b \in Builds
  /\ (b = "portable" => ~Has(f, FHardAes))         \* the portable build has no AES instructions
  /\ done' = done \cup {[key |-> k, input |-> i, v2 |-> v2, vm |-> f, cache |-> c, build |-> b, digest |-> D(k, i, v2)]}
Next == \E k \in Keys, i \in Inputs, v2 \in BOOLEAN, f \in VmFlagSets, c \in CacheCfgs, b \in Builds : Run(k, i, v2, f, c, b)
Spec == Init /\ [][Next]_done

\* bound for exhaustive checking: the set of completed hashes grows monotonically; two runs suffice to compare any pair
Small == Cardinality(done) <= 2

ConfigIndependence == \A x, y \in done : (x.key = y.key /\ x.input = y.input /\ x.v2 = y.v2) => x.digest = y.digest
DispatchSound == \A f \in VmFlagSets :
                    /\ Dispatch(f).secure => Dispatch(f).compiled
                    /\ Dispatch(f).compiled = Has(f, FJit) /\ Dispatch(f).light = ~Has(f, FFullMem)
                    /\ \A g \in VmFlagSets : Dispatch(f) = Dispatch(g) => (f = g \/ (~Has(f, FJit) /\ f % 16 = g % 16))
=============================================================================
