-------------------------------- MODULE RxConc --------------------------------
(***************************************************************************)
(* Concurrent use of the library (property C14).                           *)
(*                                                                         *)
(* The library contains no synchronisation at all; thread-safety rests on  *)
(* a sharing discipline: which memory a public call may read and write.    *)
(* That discipline is the FOOTPRINT table below - it is the specification  *)
(* of C14.  Threads run scripts of calls; a call in progress holds its     *)
(* footprint from Begin to End; happens-before is program order plus the   *)
(* barrier between dataset initialisation and fast-mode hashing (the       *)
(* caller joins its initialiser threads before hashing).  TLC explores all *)
(* interleavings and checks that no two calls of different threads ever    *)
(* hold conflicting footprints.                                            *)
(*                                                                         *)
(* Locations                                                               *)
(*   <<"cache","shared">>      the shared, initialised cache (struct,      *)
(*                             256 MiB memory, compiled initialiser)       *)
(*   <<"chunk", j>>            items of dataset range j                    *)
(*   <<"own", t>>              every object only thread t uses: its VM,    *)
(*                             scratchpad, code buffer, own cache, FP env  *)
(*   <<"global", g>>           a mutable global of the library             *)
(* The footprint table is bound to the code by harness/rx_api --globals    *)
(* (every call's writes to library globals are observed by diffing the     *)
(* writable segments of the library) and by write-protecting the shared    *)
(* cache / dataset while other calls run; see TraceConc.                   *)
(***************************************************************************)
EXTENDS Integers, FiniteSets, Sequences, TLC

CONSTANTS Threads, NChunks,
          AesProbeGlobal     \* TRUE: creating a HARD_AES VM writes the global randomx::aesDummy (code before the repair)

R(l) == [loc |-> l, w |-> FALSE]
Wr(l) == [loc |-> l, w |-> TRUE]
Shared == <<"cache", "shared">>

\* ---- the footprint table -------------------------------------------------------------------
Footprint(t, call) ==
  CASE call.op = "create_vm" ->
         {Wr(<<"own", t>>)}
         \cup (IF call.light THEN {R(Shared)} ELSE {})                 \* key string copy, SuperscalarHash compilation
         \cup (IF call.hardAes /\ AesProbeGlobal THEN {Wr(<<"global", "aesDummy">>)} ELSE {})
    [] call.op = "hash" ->
         {Wr(<<"own", t>>)}
         \cup (IF call.light THEN {R(Shared)} ELSE {R(<<"chunk", j>>) : j \in 1..NChunks})
    [] call.op = "destroy_vm" -> {Wr(<<"own", t>>)}
    [] call.op = "init_dataset" -> {R(Shared), Wr(<<"chunk", call.j>>)}
    [] call.op \in {"alloc_cache", "init_cache", "release_cache", "set_cache"} -> {Wr(<<"own", t>>)}   \* own objects only
    [] OTHER -> {}

\* ---- scripts ------------------------------------------------------------------------------
LightVm(h) == << [op |-> "create_vm", light |-> TRUE, hardAes |-> h], [op |-> "hash", light |-> TRUE],
                 [op |-> "hash", light |-> TRUE], [op |-> "destroy_vm"] >>
FullVm(h) == << [op |-> "create_vm", light |-> FALSE, hardAes |-> h], [op |-> "hash", light |-> FALSE], [op |-> "destroy_vm"] >>
DsInit(j) == << [op |-> "init_dataset", j |-> j] >>
OwnCache(h) == << [op |-> "alloc_cache"], [op |-> "init_cache"], [op |-> "create_vm", light |-> FALSE, hardAes |-> h],
                  [op |-> "init_cache"], [op |-> "set_cache"], [op |-> "release_cache"] >>
\* (create_vm on an own cache reads only own objects: modelled with light = FALSE so that no shared read is recorded)

Scripts == {LightVm(h) : h \in BOOLEAN} \cup {FullVm(h) : h \in BOOLEAN} \cup {OwnCache(h) : h \in BOOLEAN}
           \cup {DsInit(j) : j \in 1..NChunks}
IsInit(s) == s[1].op = "init_dataset"
IsFull(s) == Len(s) = 3 /\ s[1].op = "create_vm" /\ ~s[1].light

VARIABLES script,    \* [Threads -> script]
          pc,        \* [Threads -> index of the next call]
          busy       \* [Threads -> BOOLEAN] call pc[t] is in progress
vars == <<script, pc, busy>>

Init == /\ script \in [Threads -> Scripts]
        \* disjoint ranges: two initialiser threads never get the same range
        /\ \A a, b \in Threads : (a # b /\ IsInit(script[a]) /\ IsInit(script[b])) => script[a][1].j # script[b][1].j
        /\ pc = [t \in Threads |-> 1] /\ busy = [t \in Threads |-> FALSE]

Done(t) == pc[t] > Len(script[t])
\* the caller joins all initialiser threads before any fast-mode VM is used
InitJoined == \A t \in Threads : IsInit(script[t]) => Done(t)

Begin(t) == /\ ~busy[t] /\ ~Done(t)
            /\ (IsFull(script[t]) => InitJoined)
            /\ busy' = [busy EXCEPT ![t] = TRUE] /\ UNCHANGED <<script, pc>>
End(t) == /\ busy[t]
          /\ busy' = [busy EXCEPT ![t] = FALSE] /\ pc' = [pc EXCEPT ![t] = pc[t] + 1] /\ UNCHANGED script
Next == \E t \in Threads : Begin(t) \/ End(t)
Spec == Init /\ [][Next]_vars

Held(t) == IF busy[t] THEN Footprint(t, script[t][pc[t]]) ELSE {}
Conflict(a, b) == \E x \in Held(a), y \in Held(b) : x.loc = y.loc /\ (x.w \/ y.w)
NoRace == \A a, b \in Threads : a # b => ~Conflict(a, b)
\* every location a call writes is private to its thread or a dataset range no other thread was given
WritesArePrivate == \A t \in Threads : \A x \in Held(t) : x.w => (x.loc[1] \in {"own", "chunk"})
=============================================================================
