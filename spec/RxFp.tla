--------------------------------- MODULE RxFp ---------------------------------
(***************************************************************************)
(* The floating-point control/status word of the calling thread across the *)
(* hash driver (property C13).  The word is a record                       *)
(*   rc    rounding mode 0..3                                              *)
(*   ftz, daz                                                              *)
(*   masks exception masks, abstracted to two representative bits          *)
(*   flags sticky exception flags, two representatives: "p" can be raised  *)
(*         by a RandomX program (inexact), "z" cannot (e.g. divide by zero *)
(*         never occurs: group E is never 0)                               *)
(* The code moves the word as a whole (stmxcsr/ldmxcsr, fegetenv/fesetenv) *)
(* so bits of one class behave alike; that is the justification of the     *)
(* abstraction.  Driver steps as in randomx.cpp:                           *)
(*   single call : Save, [seed+fill], Reset, 8 x Program, Restore          *)
(*   first       : [seed+fill]                                            *)
(*   next / last : Reset, 8 x Program            (documented: may leave    *)
(*                                                the rounding mode set)   *)
(* A program (CFROUND) sets rc to any value and may raise "p"; nothing     *)
(* else.  The thread may change its own word arbitrarily between calls.    *)
(***************************************************************************)
EXTENDS Integers, FiniteSets, TLC

Words == [rc : 0..3, ftz : BOOLEAN, daz : BOOLEAN, masks : SUBSET {"m1", "m2"}, flags : SUBSET {"p", "z"}]
DefaultWord == [rc |-> 0, ftz |-> TRUE, daz |-> TRUE, masks |-> {"m1", "m2"}, flags |-> {}]

VARIABLES csr,      \* the thread's word
          saved,    \* what the single-call driver saved at entry
          entry,    \* ghost: word at entry of the current public call
          mode,     \* "idle" | "single" | "next" | "last"
          step,     \* 0 = before reset, 1..8 = programs run so far + 1 ... see actions
          seenOk    \* ghost: every program so far started from a default word (except rc after the first)
vars == <<csr, saved, entry, mode, step, seenOk>>

Init == /\ csr \in Words /\ saved = DefaultWord /\ entry = DefaultWord
        /\ mode = "idle" /\ step = 0 /\ seenOk = TRUE

\* the caller changes its FP environment between calls
Caller(w) == /\ mode = "idle" /\ w \in Words /\ csr' = w
             /\ UNCHANGED <<saved, entry, mode, step, seenOk>>

Enter(m) == /\ mode = "idle" /\ m \in {"single", "next", "last"}
            /\ mode' = m /\ entry' = csr /\ step' = 0 /\ seenOk' = TRUE
            /\ saved' = IF m = "single" THEN csr ELSE DefaultWord  \* _mm_getcsr / fegetenv (pipelined calls save nothing)
            /\ UNCHANGED csr

Reset == /\ mode # "idle" /\ step = 0
         /\ csr' = DefaultWord                                     \* rx_reset_float_state
         /\ step' = 1
         /\ UNCHANGED <<saved, entry, mode, seenOk>>

\* program number `step` runs: it must see default FTZ/DAZ/masks, and rc = 0 if it is the first
StartsDefault == /\ csr.ftz /\ csr.daz /\ csr.masks = {"m1", "m2"} /\ "z" \notin csr.flags
                 /\ (step = 1 => csr.rc = 0)
Program(r, raise) ==
  /\ mode # "idle" /\ step \in 1..8 /\ r \in 0..3 /\ raise \in BOOLEAN
  /\ seenOk' = (seenOk /\ StartsDefault)
  /\ csr' = [csr EXCEPT !.rc = r, !.flags = IF raise THEN csr.flags \cup {"p"} ELSE csr.flags]
  /\ step' = step + 1
  /\ UNCHANGED <<saved, entry, mode>>

Exit == /\ mode # "idle" /\ step = 9
        /\ csr' = IF mode = "single" THEN saved ELSE csr           \* _mm_setcsr(fpstate) / fesetenv
        /\ mode' = "idle" /\ step' = 0 /\ saved' = DefaultWord /\ entry' = DefaultWord
        /\ UNCHANGED seenOk

Next == \/ \E w \in Words : Caller(w)
        \/ \E m \in {"single", "next", "last"} : Enter(m)
        \/ Reset
        \/ \E r \in 0..3, raise \in BOOLEAN : Program(r, raise)
        \/ Exit
Spec == Init /\ [][Next]_vars

\* C13: after the single-call hash the caller's word is exactly what it was on entry
Restored == (mode = "idle" /\ saved = entry) => TRUE
RestoredAtExit == [][(mode = "single" /\ mode' = "idle") => csr' = entry]_vars
\* the digest cannot depend on the entry state: every program started from the default word
ProgramsSeeDefault == seenOk
\* the pipelined calls only ever change the rounding field and raisable flags relative to default
PipelineLeaves == [][(mode \in {"next", "last"} /\ mode' = "idle") =>
                       (csr'.ftz /\ csr'.daz /\ csr'.masks = {"m1", "m2"} /\ "z" \notin csr'.flags)]_vars
=============================================================================
