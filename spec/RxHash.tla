--------------------------------- MODULE RxHash ---------------------------------
(***************************************************************************)
(* The RandomX algorithm (specs.md chapter 2) as a composition of the      *)
(* functional modules:                                                     *)
(*   1  S = Hash512(H)                                                     *)
(*   2  gen1 = AesGenerator1R(S)      3  Scratchpad = 2 MiB from gen1      *)
(*   4  gen4 = AesGenerator4R(gen1.state)        5  fprc = 0               *)
(*   6  program the VM with 128 + 8*size bytes from gen4                   *)
(*   7  execute the VM          8  S = Hash512(RegisterFile)               *)
(*   9  gen4.state = S         10  steps 6-9 eight times (last: no 8, 9)   *)
(*  11  A = AesHash1R(Scratchpad)   12  RegisterFile[192..255] = A         *)
(*  13  R = Hash256(RegisterFile)                                          *)
(* The full function is far too long for TLC to evaluate on one input      *)
(* (6.3 M instruction steps, 786 k Argon2 blocks).  It is a fixed          *)
(* composition of arrows, each of which is locally checkable: this module  *)
(* states every arrow as a predicate over its input and output; TraceHash  *)
(* validates the recorded intermediate values of real hashes arrow by      *)
(* arrow (chains - scratchpad fill, fingerprint, loop iterations - link by *)
(* link at sampled positions).                                             *)
(***************************************************************************)
EXTENDS RxVm, Superscalar

ProgramSize(v2) == IF v2 THEN 384 ELSE 256
ScratchpadBlocks == 32768

SeedOf(input) == Hash512(input)
FillFirst(seed64, block0) == block0 = Flat(Gen1Step(Cols(seed64)))
FillLink(prev, block) == block = Flat(Gen1Step(Cols(prev)))
\* 3200 bytes of program buffer from the generator seed (the whole buffer is produced, 8*size bytes of it are used)
ProgramBytes(seed64) == Gen4(seed64, 50)[1]
ConfigWords(bytes) == BytesToWords(SubSeq(bytes, 1, 128))
InstrWords(bytes, v2) == [i \in 1..ProgramSize(v2) |-> SubSeq(bytes, 128 + 8 * i - 7, 128 + 8 * i)]
Reseed(regfileBytes) == Hash512(regfileBytes)
\* one link of the fingerprint chain expressed on prefix fingerprints: h(k blocks) from h(k-1 blocks) and block k
FingerprintLink(hprev, block, hnext) ==
  hnext = Flat(HashFinish(HashAbsorb(HashFinishInv(Cols(hprev)), block)))
FingerprintOfNothing == Flat(HashFinish(HashInitState))
Result(regfileBytes) == Hash256(regfileBytes)
=============================================================================
