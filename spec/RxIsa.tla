--------------------------------- MODULE RxIsa ---------------------------------
(***************************************************************************)
(* The RandomX instruction set (specs.md chapters 4.2, 4.3, 5) as an       *)
(* executable definition: decoding of an 8-byte instruction word (opcode   *)
(* ranges from the instruction frequencies, operand selection, src = dst   *)
(* special cases, immediates, scratchpad level, CBRANCH constant / mask /  *)
(* target with the last-writer table) and the effect of executing it on    *)
(* the register file, scratchpad, rounding mode and program counter.       *)
(* Integer arithmetic is exact (W64 limb arithmetic); IEEE operations go   *)
(* through RxPrim!FpOp.                                                    *)
(*                                                                         *)
(* Machine state `st`: [r : 8 words, f, e, a : 4 pairs <<lo, hi>> of       *)
(* binary64 patterns, fprc : 0..3, emask : <<lo, hi>> words (4.5.6)],      *)
(* v2 : BOOLEAN.  The scratchpad is a function from byte address (multiple *)
(* of 8) to word, supplied by the user of this module.                     *)
(***************************************************************************)
EXTENDS RxPrim

L1Mask == 16376          \* (RANDOMX_SCRATCHPAD_L1 - 1) & ~7
L2Mask == 262136
L3Mask == 2097144
L3Mask64 == 2097088
JumpOffset == 8
JumpBits == 8

\* instruction frequencies (configuration), in opcode order
Freq == << <<"IADD_RS", 16>>, <<"IADD_M", 7>>, <<"ISUB_R", 16>>, <<"ISUB_M", 7>>, <<"IMUL_R", 16>>, <<"IMUL_M", 4>>,
           <<"IMULH_R", 4>>, <<"IMULH_M", 1>>, <<"ISMULH_R", 4>>, <<"ISMULH_M", 1>>, <<"IMUL_RCP", 8>>, <<"INEG_R", 2>>,
           <<"IXOR_R", 15>>, <<"IXOR_M", 5>>, <<"IROR_R", 8>>, <<"IROL_R", 2>>, <<"ISWAP_R", 4>>, <<"FSWAP_R", 4>>,
           <<"FADD_R", 16>>, <<"FADD_M", 5>>, <<"FSUB_R", 16>>, <<"FSUB_M", 5>>, <<"FSCAL_R", 6>>, <<"FMUL_R", 32>>,
           <<"FDIV_M", 4>>, <<"FSQRT_R", 6>>, <<"CBRANCH", 25>>, <<"CFROUND", 1>>, <<"ISTORE", 16>> >>
\* cumulative upper bounds (exclusive)
Ceil == FoldLeft(LAMBDA acc, fr : Append(acc, (IF acc = <<>> THEN 0 ELSE acc[Len(acc)]) + fr[2]), <<>>, Freq)
KindOfOpcode(op) == Freq[CHOOSE k \in 1..Len(Freq) : op < Ceil[k] /\ (k = 1 \/ op >= Ceil[k - 1])][1]
\* literal table (TLC re-evaluates CHOOSE-based functions at every application); MCIsa checks it entry by entry
\* against KindOfOpcode, i.e. against the frequencies
KindTableLit == <<
  "IADD_RS", "IADD_RS", "IADD_RS", "IADD_RS", "IADD_RS", "IADD_RS", "IADD_RS", "IADD_RS",
  "IADD_RS", "IADD_RS", "IADD_RS", "IADD_RS", "IADD_RS", "IADD_RS", "IADD_RS", "IADD_RS",
  "IADD_M", "IADD_M", "IADD_M", "IADD_M", "IADD_M", "IADD_M", "IADD_M", "ISUB_R",
  "ISUB_R", "ISUB_R", "ISUB_R", "ISUB_R", "ISUB_R", "ISUB_R", "ISUB_R", "ISUB_R",
  "ISUB_R", "ISUB_R", "ISUB_R", "ISUB_R", "ISUB_R", "ISUB_R", "ISUB_R", "ISUB_M",
  "ISUB_M", "ISUB_M", "ISUB_M", "ISUB_M", "ISUB_M", "ISUB_M", "IMUL_R", "IMUL_R",
  "IMUL_R", "IMUL_R", "IMUL_R", "IMUL_R", "IMUL_R", "IMUL_R", "IMUL_R", "IMUL_R",
  "IMUL_R", "IMUL_R", "IMUL_R", "IMUL_R", "IMUL_R", "IMUL_R", "IMUL_M", "IMUL_M",
  "IMUL_M", "IMUL_M", "IMULH_R", "IMULH_R", "IMULH_R", "IMULH_R", "IMULH_M", "ISMULH_R",
  "ISMULH_R", "ISMULH_R", "ISMULH_R", "ISMULH_M", "IMUL_RCP", "IMUL_RCP", "IMUL_RCP", "IMUL_RCP",
  "IMUL_RCP", "IMUL_RCP", "IMUL_RCP", "IMUL_RCP", "INEG_R", "INEG_R", "IXOR_R", "IXOR_R",
  "IXOR_R", "IXOR_R", "IXOR_R", "IXOR_R", "IXOR_R", "IXOR_R", "IXOR_R", "IXOR_R",
  "IXOR_R", "IXOR_R", "IXOR_R", "IXOR_R", "IXOR_R", "IXOR_M", "IXOR_M", "IXOR_M",
  "IXOR_M", "IXOR_M", "IROR_R", "IROR_R", "IROR_R", "IROR_R", "IROR_R", "IROR_R",
  "IROR_R", "IROR_R", "IROL_R", "IROL_R", "ISWAP_R", "ISWAP_R", "ISWAP_R", "ISWAP_R",
  "FSWAP_R", "FSWAP_R", "FSWAP_R", "FSWAP_R", "FADD_R", "FADD_R", "FADD_R", "FADD_R",
  "FADD_R", "FADD_R", "FADD_R", "FADD_R", "FADD_R", "FADD_R", "FADD_R", "FADD_R",
  "FADD_R", "FADD_R", "FADD_R", "FADD_R", "FADD_M", "FADD_M", "FADD_M", "FADD_M",
  "FADD_M", "FSUB_R", "FSUB_R", "FSUB_R", "FSUB_R", "FSUB_R", "FSUB_R", "FSUB_R",
  "FSUB_R", "FSUB_R", "FSUB_R", "FSUB_R", "FSUB_R", "FSUB_R", "FSUB_R", "FSUB_R",
  "FSUB_R", "FSUB_M", "FSUB_M", "FSUB_M", "FSUB_M", "FSUB_M", "FSCAL_R", "FSCAL_R",
  "FSCAL_R", "FSCAL_R", "FSCAL_R", "FSCAL_R", "FMUL_R", "FMUL_R", "FMUL_R", "FMUL_R",
  "FMUL_R", "FMUL_R", "FMUL_R", "FMUL_R", "FMUL_R", "FMUL_R", "FMUL_R", "FMUL_R",
  "FMUL_R", "FMUL_R", "FMUL_R", "FMUL_R", "FMUL_R", "FMUL_R", "FMUL_R", "FMUL_R",
  "FMUL_R", "FMUL_R", "FMUL_R", "FMUL_R", "FMUL_R", "FMUL_R", "FMUL_R", "FMUL_R",
  "FMUL_R", "FMUL_R", "FMUL_R", "FMUL_R", "FDIV_M", "FDIV_M", "FDIV_M", "FDIV_M",
  "FSQRT_R", "FSQRT_R", "FSQRT_R", "FSQRT_R", "FSQRT_R", "FSQRT_R", "CBRANCH", "CBRANCH",
  "CBRANCH", "CBRANCH", "CBRANCH", "CBRANCH", "CBRANCH", "CBRANCH", "CBRANCH", "CBRANCH",
  "CBRANCH", "CBRANCH", "CBRANCH", "CBRANCH", "CBRANCH", "CBRANCH", "CBRANCH", "CBRANCH",
  "CBRANCH", "CBRANCH", "CBRANCH", "CBRANCH", "CBRANCH", "CBRANCH", "CBRANCH", "CFROUND",
  "ISTORE", "ISTORE", "ISTORE", "ISTORE", "ISTORE", "ISTORE", "ISTORE", "ISTORE",
  "ISTORE", "ISTORE", "ISTORE", "ISTORE", "ISTORE", "ISTORE", "ISTORE", "ISTORE" >>
KindTable == [op \in 0..255 |-> KindTableLit[op + 1]]
KindTableOk == \A op \in 0..255 : KindTableLit[op + 1] = KindOfOpcode(op)
FreqTotalIs256 == Ceil[Len(Freq)] = 256

IntKinds == {"IADD_RS", "IADD_M", "ISUB_R", "ISUB_M", "IMUL_R", "IMUL_M", "IMULH_R", "IMULH_M", "ISMULH_R", "ISMULH_M",
             "IMUL_RCP", "INEG_R", "IXOR_R", "IXOR_M", "IROR_R", "IROL_R", "ISWAP_R"}
MemReadKinds == {"IADD_M", "ISUB_M", "IMUL_M", "IMULH_M", "ISMULH_M", "IXOR_M"}
FpMemKinds == {"FADD_M", "FSUB_M", "FDIV_M"}

Imm32(b) == <<b[5] + 256 * b[6], b[7] + 256 * b[8]>>          \* two limbs
IsZeroOrPow2Limbs(p) ==
  LET lo == p[1]  hi == p[2]
      IsP2(x) == x \in {1, 2, 4, 8, 16, 32, 64, 128, 256, 512, 1024, 2048, 4096, 8192, 16384, 32768}
  IN  (lo = 0 /\ hi = 0) \/ (hi = 0 /\ IsP2(lo)) \/ (lo = 0 /\ IsP2(hi))

(***************************************************************************)
(* Reciprocal (5.2.6): rcp = floor(2^x / d) for the largest x with         *)
(* rcp < 2^64, d a 32-bit divisor that is not 0 or a power of two, i.e.    *)
(* x = 63 + bitlength(d).  Defined as a relation on limbs; Rcp computes it *)
(* by long division of 2^x by d, bit by bit (pure TLA+).                   *)
(***************************************************************************)
BitLen32(p) == LET hi == p[2]  lo == p[1]
                   BL16(x) == CHOOSE n \in 0..16 : (x = 0 /\ n = 0) \/ (n > 0 /\ x >= 2^(n - 1) /\ x < 2^n)
               IN  IF hi # 0 THEN 16 + BL16(hi) ELSE BL16(lo)
\* restoring division producing 64 quotient bits: dividend 2^x = 1 followed by x zeros
Rcp(p) ==
  LET d == ZeroExt32(p)
      x == 63 + BitLen32(p)
      \* process the x+1 dividend bits from the top; remainder < d < 2^32 fits a word; quotient accumulates
      step(acc, k) == LET rem2 == WAdd(WShl(acc[1], 1), IF k = 0 THEN W1 ELSE W0)   \* bring down next bit (only the leading bit is 1)
                          ge == WLe(d, rem2)
                      IN  << IF ge THEN WSub(rem2, d) ELSE rem2,
                             WAdd(WShl(acc[2], 1), IF ge THEN W1 ELSE W0) >>
  IN  FoldLeft(step, <<W0, W0>>, Range0(x + 1))[2]
\* the defining relation: r*d <= 2^x < (r+1)*d, checked with 128-bit products
IsRcp(p, r) ==
  LET d == ZeroExt32(p)
      x == 63 + BitLen32(p)
      prod == WMulFull(r, d)                          \* <<lo, hi>>
      \* 2^x as <<lo, hi>> with x in 64..95
      top == <<W0, WShl(W1, x - 64)>>
      Le128(a, b) == WLt(a[2], b[2]) \/ (a[2] = b[2] /\ WLe(a[1], b[1]))
      Lt128(a, b) == WLt(a[2], b[2]) \/ (a[2] = b[2] /\ WLt(a[1], b[1]))
      \* (r+1)*d = prod + d
      plo == WAdd(prod[1], d)
      prod1 == <<plo, WAdd(prod[2], IF WAddCarry(prod[1], d) = 1 THEN W1 ELSE W0)>>
  IN  Le128(prod, top) /\ Lt128(top, prod1)

(***************************************************************************)
(* Decoding.  b = the 8 bytes of the instruction word, i = its index in    *)
(* the program, usage = last-writer table (index of the instruction that   *)
(* last modified each integer register, -1 = not modified).                *)
(***************************************************************************)
ReadMask(dst, src, mod) == IF src = dst THEN L3Mask ELSE IF mod % 4 = 0 THEN L2Mask ELSE L1Mask
FpMemMask(mod) == IF mod % 4 = 0 THEN L2Mask ELSE L1Mask
StoreMask(mod) == IF mod \div 16 >= 14 THEN L3Mask ELSE IF mod % 4 = 0 THEN L2Mask ELSE L1Mask

\* CBRANCH constant: sign-extended imm32 with bit b set and bit b-1 cleared
CImm(p, bb) ==
  LET s == SignExt32(p)
      set == WOr(s, WShl(W1, bb))
  IN  IF bb > 0 THEN WAnd(set, WNot(WShl(W1, bb - 1))) ELSE set
CMask(bb) == WShl(<<255, 0, 0, 0>>, bb)

Decode(b, i, usage) ==
  LET k == KindTable[b[1]]
      dst8 == b[2] % 8   src8 == b[3] % 8
      dst4 == b[2] % 4   src4 == b[3] % 4
      mod == b[4]
      p == Imm32(b)
      base == [k |-> k, dst |-> dst8, src |-> src8, imm |-> SignExt32(p), mask |-> 0, shift |-> 0, target |-> -1,
               nop |-> FALSE, usage |-> usage]
      W(r) == [usage EXCEPT ![r + 1] = i]
  IN  CASE k = "IADD_RS" -> [base EXCEPT !.shift = (mod \div 4) % 4, !.imm = IF dst8 = 5 THEN SignExt32(p) ELSE W0, !.usage = W(dst8)]
        [] k \in MemReadKinds -> [base EXCEPT !.mask = ReadMask(dst8, src8, mod), !.usage = W(dst8)]
        [] k \in {"ISUB_R", "IMUL_R", "IXOR_R", "IROR_R", "IROL_R", "IMULH_R", "ISMULH_R", "INEG_R"} -> [base EXCEPT !.usage = W(dst8)]
        [] k = "IMUL_RCP" -> IF IsZeroOrPow2Limbs(p) THEN [base EXCEPT !.nop = TRUE]
                             ELSE [base EXCEPT !.imm = Rcp(p), !.usage = W(dst8)]
        [] k = "ISWAP_R" -> IF src8 = dst8 THEN [base EXCEPT !.nop = TRUE]
                            ELSE [base EXCEPT !.usage = [usage EXCEPT ![dst8 + 1] = i, ![src8 + 1] = i]]
        [] k = "FSWAP_R" -> base
        [] k \in {"FADD_R", "FSUB_R", "FMUL_R"} -> [base EXCEPT !.dst = dst4, !.src = src4]
        [] k \in FpMemKinds -> [base EXCEPT !.dst = dst4, !.mask = FpMemMask(mod)]
        [] k \in {"FSCAL_R", "FSQRT_R"} -> [base EXCEPT !.dst = dst4]
        [] k = "CBRANCH" -> LET bb == (mod \div 16) + JumpOffset
                            IN  [base EXCEPT !.imm = CImm(p, bb), !.shift = bb, !.target = usage[dst8 + 1],
                                             !.usage = [j \in 1..8 |-> i]]
        [] k = "CFROUND" -> [base EXCEPT !.imm = <<p[1] % 64, 0, 0, 0>>]
        [] k = "ISTORE" -> [base EXCEPT !.mask = StoreMask(mod)]

\* what the bytecode compiler of the implementation calls this instruction (for trace comparison only)
CodeType(d) == IF d.nop THEN "NOP" ELSE IF d.k = "IMUL_RCP" THEN "IMUL_R" ELSE d.k

(***************************************************************************)
(* 4.3.1 / 4.3.2 conversions of an 8-byte memory value                     *)
(***************************************************************************)
Lane0(q) == <<q[1], q[2], 0, 0>>     \* low 32 bits (as the low half of a word)
Lane1(q) == <<q[3], q[4], 0, 0>>
FConv(q) == << FpOp("cvt", 0, Lane0(q), W0), FpOp("cvt", 0, Lane1(q), W0) >>
\* E group: sign 0; the three top exponent bits 011; next four exponent bits and the low 22 fraction bits from the mask
Mask56 == <<65535, 65535, 65535, 255>>                 \* fraction (52 bits) + low 4 exponent bits
EPost(x, m) == WOr(WAnd(x, Mask56), m)
EConv(q, emask) == << EPost(FConv(q)[1], emask[1]), EPost(FConv(q)[2], emask[2]) >>
\* 4.5.6: mask word from a configuration quadword: fraction mask bits 0-21, exponent 011 mmmm 0000 (m = bits 60-63)
EMaskOf(q) == LET frac == <<q[1], q[2] % 64, 0, 0>>
                  expo == 768 + 16 * (q[4] \div 4096)          \* 0x300 | (q >> 60) << 4
              IN  WOr(frac, <<0, 0, 0, 16 * expo>>)
\* 4.5.2: a register half from a configuration quadword: fraction bits 0-51, exponent bits 59-63 (0..31) + bias
AOf(q) == LET expo == (q[4] \div 2048) + 1023
          IN  <<q[1], q[2], q[3], (q[4] % 16) + 16 * (expo % 2048)>>

(***************************************************************************)
(* Execution of a decoded instruction.  mem: byte address -> word.         *)
(* Result: [st, pc (index of the next instruction), store (<<>> or         *)
(* <<addr, word>>), addr (memory address read, or -1)]                     *)
(***************************************************************************)
AddrOf(regval, imm, mask) == WToInt(WAnd(WAdd(regval, imm), WFromInt(mask)))
FpLane(op, rc, x, y) == << FpOp(op, rc, x[1], y[1]), FpOp(op, rc, x[2], y[2]) >>
ScalXor == <<0, 0, 0, 33008>>         \* 0x80F0000000000000

Exec(d, st, v2, i, mem) ==
  LET r == st.r
      D == r[d.dst + 1]
      S == r[d.src + 1]
      SetR(v) == [st EXCEPT !.r[d.dst + 1] = v]
      Res(s2) == [st |-> s2, pc |-> i + 1, store |-> <<>>, addr |-> -1]
      \* integer memory operand: src = dst reads [imm & L3] (source register replaced by zero)
      ia == AddrOf(IF d.src = d.dst THEN W0 ELSE S, d.imm, d.mask)
      im == mem[ia]
      RegOrImm == IF d.src = d.dst THEN d.imm ELSE S
      \* FP memory operand
      fa == AddrOf(S, d.imm, d.mask)
      fm == mem[fa]
      rc == st.fprc
  IN  IF d.nop THEN Res(st) ELSE
      CASE d.k = "IADD_RS" -> Res(SetR(WAdd(WAdd(D, WShl(S, d.shift)), d.imm)))
        [] d.k = "IADD_M"  -> [Res(SetR(WAdd(D, im))) EXCEPT !.addr = ia]
        [] d.k = "ISUB_R"  -> Res(SetR(WSub(D, RegOrImm)))
        [] d.k = "ISUB_M"  -> [Res(SetR(WSub(D, im))) EXCEPT !.addr = ia]
        [] d.k = "IMUL_R"  -> Res(SetR(WMul(D, RegOrImm)))
        [] d.k = "IMUL_M"  -> [Res(SetR(WMul(D, im))) EXCEPT !.addr = ia]
        [] d.k = "IMULH_R" -> Res(SetR(WMulH(D, S)))
        [] d.k = "IMULH_M" -> [Res(SetR(WMulH(D, im))) EXCEPT !.addr = ia]
        [] d.k = "ISMULH_R" -> Res(SetR(WSMulH(D, S)))
        [] d.k = "ISMULH_M" -> [Res(SetR(WSMulH(D, im))) EXCEPT !.addr = ia]
        [] d.k = "IMUL_RCP" -> Res(SetR(WMul(D, d.imm)))
        [] d.k = "INEG_R"  -> Res(SetR(WNeg(D)))
        [] d.k = "IXOR_R"  -> Res(SetR(WXor(D, RegOrImm)))
        [] d.k = "IXOR_M"  -> [Res(SetR(WXor(D, im))) EXCEPT !.addr = ia]
        [] d.k = "IROR_R"  -> Res(SetR(WRotR(D, RegOrImm[1] % 64)))
        [] d.k = "IROL_R"  -> Res(SetR(WRotL(D, RegOrImm[1] % 64)))
        [] d.k = "ISWAP_R" -> Res([st EXCEPT !.r[d.dst + 1] = S, !.r[d.src + 1] = D])
        [] d.k = "FSWAP_R" -> IF d.dst < 4 THEN Res([st EXCEPT !.f[d.dst + 1] = <<st.f[d.dst + 1][2], st.f[d.dst + 1][1]>>])
                              ELSE Res([st EXCEPT !.e[d.dst - 3] = <<st.e[d.dst - 3][2], st.e[d.dst - 3][1]>>])
        [] d.k = "FADD_R"  -> Res([st EXCEPT !.f[d.dst + 1] = FpLane("add", rc, st.f[d.dst + 1], st.a[d.src + 1])])
        [] d.k = "FADD_M"  -> [Res([st EXCEPT !.f[d.dst + 1] = FpLane("add", rc, st.f[d.dst + 1], FConv(fm))]) EXCEPT !.addr = fa]
        [] d.k = "FSUB_R"  -> Res([st EXCEPT !.f[d.dst + 1] = FpLane("sub", rc, st.f[d.dst + 1], st.a[d.src + 1])])
        [] d.k = "FSUB_M"  -> [Res([st EXCEPT !.f[d.dst + 1] = FpLane("sub", rc, st.f[d.dst + 1], FConv(fm))]) EXCEPT !.addr = fa]
        [] d.k = "FSCAL_R" -> Res([st EXCEPT !.f[d.dst + 1] = <<WXor(st.f[d.dst + 1][1], ScalXor), WXor(st.f[d.dst + 1][2], ScalXor)>>])
        [] d.k = "FMUL_R"  -> Res([st EXCEPT !.e[d.dst + 1] = FpLane("mul", rc, st.e[d.dst + 1], st.a[d.src + 1])])
        [] d.k = "FDIV_M"  -> [Res([st EXCEPT !.e[d.dst + 1] = FpLane("div", rc, st.e[d.dst + 1], EConv(fm, st.emask))]) EXCEPT !.addr = fa]
        [] d.k = "FSQRT_R" -> Res([st EXCEPT !.e[d.dst + 1] = FpLane("sqrt", rc, st.e[d.dst + 1], st.e[d.dst + 1])])
        [] d.k = "CBRANCH" -> LET v == WAdd(D, d.imm)
                                  taken == WAnd(v, CMask(d.shift)) = W0
                              IN  [Res(SetR(v)) EXCEPT !.pc = IF taken THEN d.target + 1 ELSE i + 1]
        [] d.k = "CFROUND" -> LET x == WRotR(S, d.imm[1])
                                  sel == x[1] % 4
                                  guard == (x[1] \div 4) % 16 = 0            \* bits 2-5 zero
                              IN  Res(IF (~v2) \/ guard THEN [st EXCEPT !.fprc = sel] ELSE st)
        [] d.k = "ISTORE"  -> [Res(st) EXCEPT !.store = <<AddrOf(D, d.imm, d.mask), S>>]

\* one complete step
Step(b, i, usage, st, v2, mem) == LET d == Decode(b, i, usage) IN [dec |-> d, res |-> Exec(d, st, v2, i, mem)]

(***************************************************************************)
(* Invariants of the floating point groups (C05): no NaN / subnormal       *)
(* result, group A in [1, 2^32), group E positive.                         *)
(***************************************************************************)
NoNaNSub(x) == ~IsNaN(x) /\ ~IsSubnormal(x)
AInRange(x) == SignBit(x) = 0 /\ ExpField(x) >= 1023 /\ ExpField(x) <= 1054
EPositive(x) == SignBit(x) = 0 /\ ~IsZero(x) /\ ~IsNaN(x)
=============================================================================
