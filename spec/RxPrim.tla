-------------------------------- MODULE RxPrim --------------------------------
(***************************************************************************)
(* IEEE-754 binary64 primitives used by the RandomX virtual machine.       *)
(*                                                                         *)
(* FpOp(op, rc, x, y): x, y and the result are binary64 bit patterns as    *)
(* W64 words (four 16-bit limbs); op \in {"add","sub","mul","div","sqrt",  *)
(* "cvt"}; rc is the rounding mode of specs.md Table 4.3.1                 *)
(* (0 nearest-even, 1 toward -inf, 2 toward +inf, 3 toward zero).          *)
(* Contract: the result is the binary64 value selected by the rounding     *)
(* direction from the exact real result of the operation on the values     *)
(* denoted by x and y, with subnormal operands read as zero and subnormal  *)
(* results replaced by zero ("cvt" converts the signed 32-bit integer in   *)
(* the low half of x exactly).  TLC has neither reals nor 64-bit integers, *)
(* so this one operator is evaluated by the Java class                     *)
(* tlc2.module.RxPrim (spec/java), which is trusted base; the harness      *)
(* records the hardware's results for random and boundary operands in all  *)
(* four modes and TraceIsa compares them (event "fp").                     *)
(***************************************************************************)
EXTENDS W64

\* no TLA+ body can be evaluated by TLC for this operator: the override is mandatory
FpOp(op, rc, x, y) == CHOOSE r \in {} : TRUE

\* helpers on bit patterns (pure TLA+)
SignBit(x) == x[4] \div 32768
ExpField(x) == (x[4] \div 16) % 2048
FracIsZero(x) == x[1] = 0 /\ x[2] = 0 /\ x[3] = 0 /\ x[4] % 16 = 0
IsNaN(x) == ExpField(x) = 2047 /\ ~FracIsZero(x)
IsInf(x) == ExpField(x) = 2047 /\ FracIsZero(x)
IsSubnormal(x) == ExpField(x) = 0 /\ ~FracIsZero(x)
IsZero(x) == ExpField(x) = 0 /\ FracIsZero(x)
=============================================================================
