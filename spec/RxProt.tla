-------------------------------- MODULE RxProt --------------------------------
(***************************************************************************)
(* Page protection of the library's code buffers (property C16).           *)
(*                                                                         *)
(* A code buffer belongs to a secure VM, a non-secure VM or a cache        *)
(* (compiled dataset initialiser).  The library changes its protection     *)
(* with the primitives                                                     *)
(*    Map            mmap(RW)                                              *)
(*    EnableWriting  mprotect(RW)                                          *)
(*    EnableExecution mprotect(RX)                                         *)
(*    EnableAll      mprotect(RWX)   -- only the non-secure VM constructor *)
(*    Unmap                                                                *)
(* and uses the buffer by Generate (writes code: needs W) and Execute      *)
(* (runs code: needs X).  Every public call is the sequence of primitives  *)
(* the code issues for it (Sub below); the variable `todo` holds the rest  *)
(* of the current call so that every intermediate protection state is a    *)
(* TLC state and the invariants are evaluated there.                       *)
(***************************************************************************)
EXTENDS Integers, FiniteSets, Sequences, TLC

CONSTANTS Vms, Caches,
          NProg,       \* programs per hash call (8 in RandomX; 2 suffices for exhaustive checking)
          RetryWithAll \* FALSE = the code as it is; TRUE = defect variant: a refused RW->RX change is retried with R+W+X

Bufs == Vms \cup Caches                       \* one code buffer per JIT VM / JIT cache
None == "none"

VARIABLES prot,     \* [Bufs -> "unmapped" | "RW" | "RX" | "RWX"]
          secure,   \* [Vms -> BOOLEAN]   (meaningful while the VM exists)
          light,    \* [Vms -> BOOLEAN]
          alive,    \* [Bufs -> BOOLEAN]
          inited,   \* [Caches -> BOOLEAN]  cache holds compiled code
          todo,     \* remaining primitive steps of the call in progress: sequence of <<op, buffer>>
          fault,    \* TRUE once a step wrote without W or executed without X (would be a crash)
          refused   \* [Bufs -> BOOLEAN] the operating system refused a protection change of the buffer at least once (the call ended there)
vars == <<prot, secure, light, alive, inited, todo, fault, refused>>

Init == /\ prot = [b \in Bufs |-> "unmapped"] /\ secure = [v \in Vms |-> FALSE] /\ light = [v \in Vms |-> FALSE]
        /\ alive = [b \in Bufs |-> FALSE] /\ inited = [c \in Caches |-> FALSE] /\ todo = <<>> /\ fault = FALSE
        /\ refused = [b \in Bufs |-> FALSE]

W(p) == p \in {"RW", "RWX"}
X(p) == p \in {"RX", "RWX"}

\* bracket around code generation as the code writes it
Bracket(b, sec) == IF sec THEN << <<"EnableWriting", b>>, <<"Generate", b>>, <<"EnableExecution", b>> >>
                   ELSE << <<"Generate", b>> >>

\* --- public calls: enabled only between calls (todo empty) -------------------------------
CreateVm(v, sec, lt) ==
  /\ todo = <<>> /\ ~alive[v]
  /\ alive' = [alive EXCEPT ![v] = TRUE] /\ secure' = [secure EXCEPT ![v] = sec] /\ light' = [light EXCEPT ![v] = lt]
  /\ todo' = << <<"Map", v>> >> \o (IF sec THEN <<>> ELSE << <<"EnableAll", v>> >>)
             \o (IF lt THEN Bracket(v, sec) ELSE <<>>)          \* light VM: setCache compiles SuperscalarHash
  /\ UNCHANGED <<prot, inited, fault, refused>>

RECURSIVE Progs(_, _)
Progs(v, n) == IF n = 0 THEN <<>> ELSE Bracket(v, secure[v]) \o << <<"Execute", v>> >> \o Progs(v, n - 1)
RunPrograms(v) ==          \* a hash call that runs programs: each is generated, then executed
  /\ todo = <<>> /\ alive[v]
  /\ todo' = Progs(v, NProg)
  /\ UNCHANGED <<prot, secure, light, alive, inited, fault, refused>>

SetCache(v) ==
  /\ todo = <<>> /\ alive[v] /\ light[v]
  /\ todo' = Bracket(v, secure[v])
  /\ UNCHANGED <<prot, secure, light, alive, inited, fault, refused>>

DestroyVm(v) ==
  /\ todo = <<>> /\ alive[v]
  /\ alive' = [alive EXCEPT ![v] = FALSE]
  /\ todo' = << <<"Unmap", v>> >>
  /\ UNCHANGED <<prot, secure, light, inited, fault, refused>>

AllocCache(c) ==
  /\ todo = <<>> /\ ~alive[c]
  /\ alive' = [alive EXCEPT ![c] = TRUE] /\ inited' = [inited EXCEPT ![c] = FALSE]
  /\ todo' = << <<"Map", c>> >>
  /\ UNCHANGED <<prot, secure, light, fault, refused>>

InitCache(c) ==             \* (re-)keying compiles the dataset-init code; always bracketed
  /\ todo = <<>> /\ alive[c]
  /\ inited' = [inited EXCEPT ![c] = TRUE]
  /\ todo' = Bracket(c, TRUE)
  /\ UNCHANGED <<prot, secure, light, alive, fault, refused>>

InitDataset(c) ==           \* runs the cache's compiled initialiser
  /\ todo = <<>> /\ alive[c] /\ inited[c]
  /\ todo' = << <<"Execute", c>> >>
  /\ UNCHANGED <<prot, secure, light, alive, inited, fault, refused>>

ReleaseCache(c) ==
  /\ todo = <<>> /\ alive[c]
  /\ alive' = [alive EXCEPT ![c] = FALSE]
  /\ todo' = << <<"Unmap", c>> >>
  /\ UNCHANGED <<prot, secure, light, inited, fault, refused>>

\* --- one primitive step -------------------------------------------------------------------
Step ==
  /\ todo # <<>>
  /\ LET op == Head(todo)[1]
         b == Head(todo)[2]
     IN  /\ todo' = Tail(todo)
         /\ prot' = CASE op = "Map" -> [prot EXCEPT ![b] = "RW"]
                      [] op = "EnableWriting" -> [prot EXCEPT ![b] = "RW"]
                      [] op = "EnableExecution" -> [prot EXCEPT ![b] = "RX"]
                      [] op = "EnableAll" -> [prot EXCEPT ![b] = "RWX"]
                      [] op = "Unmap" -> [prot EXCEPT ![b] = "unmapped"]
                      [] OTHER -> prot
         /\ fault' = (fault \/ (~refused[b] /\ ((op = "Generate" /\ ~W(prot[b])) \/ (op = "Execute" /\ ~X(prot[b])))))
         /\ refused' = IF op = "Map" THEN [refused EXCEPT ![b] = FALSE] ELSE refused       \* a new mapping starts afresh
  /\ UNCHANGED <<secure, light, alive, inited>>

\* the operating system refuses a protection change (mprotect fails): the buffer keeps its protection, the library throws and the
\* call ends there (its remaining steps are not executed).  Nothing is retried with other rights.
StepRefused ==
  /\ todo # <<>> /\ Head(todo)[1] \in {"EnableWriting", "EnableExecution", "EnableAll"}
  /\ todo' = IF RetryWithAll /\ Head(todo)[1] = "EnableExecution" THEN << <<"EnableAll", Head(todo)[2]>> >> \o Tail(todo) ELSE <<>>
  /\ refused' = [refused EXCEPT ![Head(todo)[2]] = TRUE]
  /\ UNCHANGED <<prot, secure, light, alive, inited, fault>>

Next == \/ Step \/ StepRefused
        \/ \E v \in Vms, s \in BOOLEAN, lt \in BOOLEAN : CreateVm(v, s, lt)
        \/ \E v \in Vms : RunPrograms(v) \/ SetCache(v) \/ DestroyVm(v)
        \/ \E c \in Caches : AllocCache(c) \/ InitCache(c) \/ InitDataset(c) \/ ReleaseCache(c)
Spec == Init /\ [][Next]_vars

-----------------------------------------------------------------------------
\* buffers that must obey W^X: those of secure VMs and of caches
MustWX(b) == (b \in Caches) \/ (b \in Vms /\ secure[b])
NoWX == \A b \in Bufs : (prot[b] # "unmapped" /\ MustWX(b)) => ~(W(prot[b]) /\ X(prot[b]))
\* a missing bracket would be a write to non-writable or a jump to non-executable pages
NoFault == ~fault
\* between calls a secure/cache buffer is never left writable after code was put there
RestsExecutable == todo = <<>> =>
   \A b \in Bufs : (alive[b] /\ ~refused[b] /\ MustWX(b) /\ ((b \in Caches /\ inited[b]) \/ (b \in Vms /\ light[b]))) => prot[b] = "RX"
NoLeakedMapping == todo = <<>> => \A b \in Bufs : ~alive[b] => prot[b] = "unmapped"
=============================================================================
