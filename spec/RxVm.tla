--------------------------------- MODULE RxVm ---------------------------------
(***************************************************************************)
(* Programming and executing the RandomX virtual machine (specs.md 4.5,    *)
(* 4.6) as an executable definition: from the 128 configuration bytes and  *)
(* the program words to the register file, the scratchpad writes, the      *)
(* rounding mode and the number of executed instructions after n loop      *)
(* iterations.  This is the specification of ONE program run; both         *)
(* engines (bytecode interpreter, x86-64 JIT) are bound to it (C04), the   *)
(* termination budget of C07 is measured on it, and the hash driver of     *)
(* C02 chains eight such runs.                                             *)
(*                                                                         *)
(* Memory is given by the user of the module:                              *)
(*   sp0   : byte address (multiple of 8) -> word, initial scratchpad      *)
(*   ditem : item number -> 8 words, the 64-byte dataset item              *)
(***************************************************************************)
EXTENDS RxIsa, Aes

CacheLineAlign == 2147483584        \* (RANDOMX_DATASET_BASE_SIZE - 1) & ~63 = 0x7FFFFFC0
ExtraItemsPlus1 == 524288           \* RANDOMX_DATASET_EXTRA_SIZE / 64 + 1  (= 2^19)

\* ---- 4.5 programming: q = the 16 configuration quadwords (words) -------------------------------
Lo32Int(w) == w[1] + 65536 * (w[2] % 32768)      \* low 31 bits as an integer (enough for masked addresses)
ConfigOf(q) ==
  [ a |-> << <<AOf(q[1]), AOf(q[2])>>, <<AOf(q[3]), AOf(q[4])>>, <<AOf(q[5]), AOf(q[6])>>, <<AOf(q[7]), AOf(q[8])>> >>,
    ma |-> <<q[9][1] - (q[9][1] % 64), q[9][2] % 32768>>,         \* low 32 bits & 0x7FFFFFC0, as two limbs
    mx |-> <<q[11][1], q[11][2]>>,                                 \* low 32 bits
    readReg |-> << q[13][1] % 2, 2 + ((q[13][1] \div 2) % 2), 4 + ((q[13][1] \div 4) % 2), 6 + ((q[13][1] \div 8) % 2) >>,
    dsOffsetItems |-> q[14][1] + 65536 * (q[14][2] % 8),            \* quadword 13 mod 2^19, in items
    emask |-> <<EMaskOf(q[15]), EMaskOf(q[16])>> ]

\* ---- decoding of the whole program (static: the last-writer table runs over the program once) ----
DecodeProgram(words) ==
  FoldLeft(LAMBDA acc, i : LET d == Decode(words[i + 1], i, acc[2]) IN <<Append(acc[1], d), d.usage>>,
           << <<>>, [j \in 1..8 |-> -1] >>, Range0(Len(words)))[1]

\* ---- scratchpad with pattern default: [w |-> function of overwritten addresses] -------------------
SpRead(sp, base, addr) == IF addr \in DOMAIN sp THEN sp[addr] ELSE base[addr]
SpWrite(sp, addr, val) == [a \in (DOMAIN sp) \cup {addr} |-> IF a = addr THEN val ELSE sp[a]]

\* ---- one pass over the program: from pc = 0 until pc = N, at most 3N+1 executed instructions --------
RunProgram(dec, st0, sp0w, base, v2) ==
  LET N == Len(dec)
      stepf(acc, k) ==
        IF acc.pc >= N THEN acc
        ELSE LET d == dec[acc.pc + 1]
                 memf == [a \in 0..2097151 |-> SpRead(acc.sp, base, a)]
                 x == Exec(d, acc.st, v2, acc.pc, memf)
             IN  [st |-> x.st, pc |-> x.pc, count |-> acc.count + 1,
                  sp |-> IF x.store = <<>> THEN acc.sp ELSE SpWrite(acc.sp, x.store[1], x.store[2])]
  IN  FoldLeft(stepf, [st |-> st0, pc |-> 0, count |-> 0, sp |-> sp0w], Range0(3 * N + 1))

\* ---- v2 mix of group F with group E through AES (4.6.2 step 10) ----------------------------------
RegBytes(p) == WToBytes(p[1]) \o WToBytes(p[2])                 \* register pair -> 16 bytes
BytesReg(b) == <<WFromBytesAt(b, 1), WFromBytesAt(b, 9)>>
AesMix(f, e) ==
  LET fb == [i \in 1..4 |-> RegBytes(f[i])]
      r == FoldLeft(LAMBDA s, i : LET k == RegBytes(e[i + 1])
                                  IN  << Enc(s[1], k), Dec(s[2], k), Enc(s[3], k), Dec(s[4], k) >>,
                    fb, Range0(4))
  IN  [i \in 1..4 |-> BytesReg(r[i])]
XorMix(f, e) == [i \in 1..4 |-> <<WXor(f[i][1], e[i][1]), WXor(f[i][2], e[i][2])>>]

W32(p) == <<p[1], p[2], 0, 0>>
Xor32(p, w) == <<p[1] ^^ w[1], p[2] ^^ w[2]>>                    \* 32-bit pair xor low half of a word
And32Int(p, m) == WToInt(WAnd(W32(p), WFromInt(m)))

\* ---- one loop iteration (4.6.2) -------------------------------------------------------------------
\* m = [st, ma, mx, sa0, sa1 (spAddr as 32-bit limb pairs), sp, count]
Iteration(m, cfg, dec, base, ditem, v2) ==
  LET r0 == m.st.r
      mix == WXor(r0[cfg.readReg[1] + 1], r0[cfg.readReg[2] + 1])
      a0 == And32Int(Xor32(m.sa0, <<mix[1], mix[2], 0, 0>>), L3Mask64)
      a1 == And32Int(Xor32(m.sa1, <<mix[3], mix[4], 0, 0>>), L3Mask64)
      rd(a) == SpRead(m.sp, base, a)
      r1 == [i \in 1..8 |-> WXor(r0[i], rd(a0 + 8 * (i - 1)))]
      f1 == [i \in 1..4 |-> FConv(rd(a1 + 8 * (i - 1)))]
      e1 == [i \in 1..4 |-> EConv(rd(a1 + 8 * (3 + i)), cfg.emask)]
      st1 == [m.st EXCEPT !.r = r1, !.f = f1, !.e = e1]
      run == RunProgram(dec, st1, m.sp, base, v2)
      st2 == run.st
      r2 == st2.r
      \* dataset read address uses ma before the update of mp
      readItem == cfg.dsOffsetItems + (And32Int(m.ma, CacheLineAlign) \div 64)
      mixm == WXor(r2[cfg.readReg[3] + 1], r2[cfg.readReg[4] + 1])
      mp == IF v2 THEN m.ma ELSE m.mx
      mp2 == Xor32(mp, mixm)
      ma2 == IF v2 THEN mp2 ELSE m.ma
      mx2 == IF v2 THEN m.mx ELSE mp2
      item == ditem[readItem]
      r3 == [i \in 1..8 |-> WXor(r2[i], item[i])]
      f3 == IF v2 THEN AesMix(st2.f, st2.e) ELSE XorMix(st2.f, st2.e)
      spA == FoldLeft(LAMBDA s, i : SpWrite(s, a1 + 8 * i, r3[i + 1]), run.sp, Range0(8))
      spB == FoldLeft(LAMBDA s, i : SpWrite(SpWrite(s, a0 + 16 * i, f3[i + 1][1]), a0 + 16 * i + 8, f3[i + 1][2]), spA, Range0(4))
  IN  [st |-> [st2 EXCEPT !.r = r3, !.f = f3],
       ma |-> mx2, mx |-> ma2,                                       \* swap(mx, ma)
       sa0 |-> <<0, 0>>, sa1 |-> <<0, 0>>, sp |-> spB, count |-> m.count + run.count,
       items |-> Append(m.items, readItem)]

\* ---- complete run: words = program instruction words (8 bytes each), q = configuration quadwords ----
RunVm(q, words, n, fprc0, base, ditem, v2) ==
  LET cfg == ConfigOf(q)
      dec == DecodeProgram(words)
      st0 == [r |-> [i \in 1..8 |-> W0], f |-> [i \in 1..4 |-> <<W0, W0>>], e |-> [i \in 1..4 |-> <<W0, W0>>],
              a |-> cfg.a, fprc |-> fprc0, emask |-> cfg.emask]
      m0 == [st |-> st0, ma |-> cfg.ma, mx |-> cfg.mx, sa0 |-> cfg.mx, sa1 |-> cfg.ma, sp |-> <<>>, count |-> 0, items |-> <<>>]
  IN  FoldLeft(LAMBDA m, k : Iteration(m, cfg, dec, base, ditem, v2), m0, Range0(n))
=============================================================================
