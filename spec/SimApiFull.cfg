SPECIFICATION SimSpec
CONSTANTS
  Keys = {"K1", "K2"}
  Inputs = {"I1", "I2"}
  Caches = {"c1"}
  Vms = {"v1", "v2"}
  Datasets = {"d1"}
  SAddrs = {"s1"}
  MAddrs = {"m1"}
  DAddrs = {"dm1"}
  LightKinds = {}
  FullKinds = {"IF", "CF"}
  NChunks = 2
  IdentityCheck = TRUE
  EnablePipeline = TRUE
  EnableV2 = TRUE
  EnableForeign = FALSE
  EnableRc = TRUE
  HLen = 12
CONSTRAINT Emit
INVARIANT HistoryIndependence
INVARIANT NoDanglingState
INVARIANT ReadsExpected
CHECK_DEADLOCK FALSE
