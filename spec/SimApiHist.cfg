SPECIFICATION SimSpec
CONSTANTS
  Keys = {"K1", "K2"}
  Inputs = {"I1", "I2"}
  Caches = {"c1", "c2"}
  Vms = {"v1", "v2"}
  Datasets = {}
  SAddrs = {"s1", "s2"}
  MAddrs = {"m1", "m2"}
  DAddrs = {}
  LightKinds = {"IL", "CL"}
  FullKinds = {}
  NChunks = 1
  IdentityCheck = TRUE
  EnablePipeline = TRUE
  EnableV2 = TRUE
  EnableForeign = TRUE
  EnableRc = TRUE
  HLen = 16
CONSTRAINT Emit
INVARIANT HistoryIndependence
INVARIANT NoDanglingState
INVARIANT ReadsExpected
CHECK_DEADLOCK FALSE
