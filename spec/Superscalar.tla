------------------------------ MODULE Superscalar ------------------------------
(***************************************************************************)
(* SuperscalarHash (specs.md chapter 6) and Dataset item construction      *)
(* (7.2, 7.3):                                                             *)
(*   - BlakeGenerator byte stream with its consumption rule (3.5)          *)
(*   - the program GENERATOR as a machine: the simulated reference CPU     *)
(*     (decoder groups, macro-op slots, port map P0/P1/P5, register        *)
(*     availability, source / destination selection rules, look-ahead,     *)
(*     throw-away, termination), one step per macro-op slot                *)
(*   - ASIC latencies and the address register                             *)
(*   - well-formedness of a program (Table 6.1.1)                          *)
(*   - execution of a program and construction of a 64-byte Dataset item   *)
(* chapter 6 leaves the order in which random bytes are consumed to the    *)
(* reference implementation; the machine below fixes it exactly as         *)
(* superscalar.cpp does, so that Gen(key) is a function.                   *)
(* An instruction is [op, dst, src, mod, imm] with imm = two 16-bit limbs. *)
(***************************************************************************)
EXTENDS Blake2b, RxIsa

Latency == 170                      \* RANDOMX_SUPERSCALAR_LATENCY
MaxSize == 3 * Latency + 2
MapSize == Latency + 4              \* cycles tracked in the port map
LookForward == 4
MaxThrowAway == 256
R5 == 5                             \* register that cannot be the destination of IADD_RS (x86 lea limitation)

\* instruction types (numeric codes are the opcode byte stored in the program)
ISUB_R == 0  IXOR_R == 1  IADD_RS == 2  IMUL_R == 3  IROR_C == 4  IADD_C7 == 5  IXOR_C7 == 6  IADD_C8 == 7
IXOR_C8 == 8  IADD_C9 == 9  IXOR_C9 == 10  IMULH_R == 11  ISMULH_R == 12  IMUL_RCP == 13  NOPT == -1
IsMul(t) == t \in {IMUL_R, IMULH_R, ISMULH_R, IMUL_RCP}

\* ---- BlakeGenerator -----------------------------------------------------------------------------
\* mode "hash": S' = Hash512(S) (3.5.2).  mode "script": the successive 64-byte blocks are given explicitly
\* (used to drive the generator logic along chosen byte streams; the real code is then run with the same blocks)
GenInit(key, nonce) == [blk |-> GenInitData(key, nonce), idx |-> 64, mode |-> "hash", rest |-> <<>>]
GenScript(blocks) == [blk |-> blocks[1], idx |-> 64, mode |-> "script", rest |-> blocks]
Refill(g, need) == IF g.idx + need > 64
                   THEN IF g.mode = "script" THEN [g EXCEPT !.blk = g.rest[1], !.idx = 0, !.rest = Tail(g.rest)]
                        ELSE [g EXCEPT !.blk = Hash512(g.blk), !.idx = 0]
                   ELSE g
\* <<value, generator'>>
GetByte(g) == LET h == Refill(g, 1) IN <<h.blk[h.idx + 1], [h EXCEPT !.idx = h.idx + 1]>>
GetU32(g) == LET h == Refill(g, 4)
             IN  << <<h.blk[h.idx + 1] + 256 * h.blk[h.idx + 2], h.blk[h.idx + 3] + 256 * h.blk[h.idx + 4]>>, [h EXCEPT !.idx = h.idx + 4] >>
U32Mod(p, n) == ((p[1] % n) + ((65536 % n) * (p[2] % n))) % n

\* ---- reference CPU: macro-ops [size, lat, u1, u2, dep]; ports as sets over {"P0","P1","P5"} ---------
P015 == {"P0", "P1", "P5"}  P01 == {"P0", "P1"}  P05 == {"P0", "P5"}  P1 == {"P1"}  P5 == {"P5"}
Mop(size, lat, u1, u2, dep) == [size |-> size, lat |-> lat, u1 |-> u1, u2 |-> u2, dep |-> dep]
SubRR == Mop(3, 1, P015, {}, FALSE)   XorRR == Mop(3, 1, P015, {}, FALSE)   LeaSib == Mop(4, 1, P01, {}, FALSE)
ImulRR == Mop(4, 3, P1, {}, FALSE)    RorRI == Mop(4, 1, P05, {}, FALSE)    AddRI == Mop(7, 1, P015, {}, FALSE)
XorRI == Mop(7, 1, P015, {}, FALSE)   MovRR == Mop(3, 0, {}, {}, FALSE)     MulR == Mop(3, 4, P1, P5, FALSE)
ImulR == Mop(3, 4, P1, P5, FALSE)     MovRI == Mop(10, 1, P015, {}, FALSE)  ImulRRdep == Mop(4, 3, P1, {}, TRUE)

\* per type: macro-ops, index (0-based) of the op that produces the result / needs dst / needs src (-1 = none)
Info(t) ==
  CASE t = ISUB_R -> [ops |-> <<SubRR>>, res |-> 0, dstOp |-> 0, srcOp |-> 0]
    [] t = IXOR_R -> [ops |-> <<XorRR>>, res |-> 0, dstOp |-> 0, srcOp |-> 0]
    [] t = IADD_RS -> [ops |-> <<LeaSib>>, res |-> 0, dstOp |-> 0, srcOp |-> 0]
    [] t = IMUL_R -> [ops |-> <<ImulRR>>, res |-> 0, dstOp |-> 0, srcOp |-> 0]
    [] t = IROR_C -> [ops |-> <<RorRI>>, res |-> 0, dstOp |-> 0, srcOp |-> -1]
    [] t \in {IADD_C7, IADD_C8, IADD_C9} -> [ops |-> <<AddRI>>, res |-> 0, dstOp |-> 0, srcOp |-> -1]
    [] t \in {IXOR_C7, IXOR_C8, IXOR_C9} -> [ops |-> <<XorRI>>, res |-> 0, dstOp |-> 0, srcOp |-> -1]
    [] t = IMULH_R -> [ops |-> <<MovRR, MulR, MovRR>>, res |-> 1, dstOp |-> 0, srcOp |-> 1]
    [] t = ISMULH_R -> [ops |-> <<MovRR, ImulR, MovRR>>, res |-> 1, dstOp |-> 0, srcOp |-> 1]
    [] t = IMUL_RCP -> [ops |-> <<MovRI, ImulRRdep>>, res |-> 1, dstOp |-> 1, srcOp |-> -1]
    [] OTHER -> [ops |-> <<>>, res |-> 0, dstOp |-> 0, srcOp |-> -2]

\* decoder groups (Table 6.3.1)
Buffers == << <<4, 8, 4>>, <<7, 3, 3, 3>>, <<3, 7, 3, 3>>, <<4, 9, 3>>, <<4, 4, 4, 4>>, <<3, 3, 10>> >>    \* index 0..5 -> Buffers[i+1]

\* ---- port map: sequence over cycles 0..MapSize-1 of the set of busy ports ---------------------------
\* first cycle >= c at which a micro-op with port set u can issue, trying P5, then P0, then P1; -1 if none
ChoosePort(u, busy) == IF "P5" \in u /\ "P5" \notin busy THEN "P5"
                       ELSE IF "P0" \in u /\ "P0" \notin busy THEN "P0"
                       ELSE IF "P1" \in u /\ "P1" \notin busy THEN "P1" ELSE "none"
UopCycle(u, pm, c) == LET cs == {x \in c..(MapSize - 1) : ChoosePort(u, pm[x + 1]) # "none"}
                      IN  IF cs = {} THEN -1 ELSE CHOOSE x \in cs : \A y \in cs : x <= y
Commit(u, pm, c) == [pm EXCEPT ![c + 1] = pm[c + 1] \cup {ChoosePort(u, pm[c + 1])}]
\* <<scheduleCycle, portmap'>> ; commit = FALSE leaves the map unchanged
SchedMop(mop, pm, c0, dep, commit) ==
  LET c == IF mop.dep /\ dep > c0 THEN dep ELSE c0
  IN  IF mop.u1 = {} THEN <<c, pm>>
      ELSE IF mop.u2 = {}
      THEN LET x == UopCycle(mop.u1, pm, c) IN <<x, IF commit /\ x >= 0 THEN Commit(mop.u1, pm, x) ELSE pm>>
      ELSE LET ok == {x \in c..(MapSize - 1) : UopCycle(mop.u1, pm, x) >= 0 /\ UopCycle(mop.u1, pm, x) = UopCycle(mop.u2, pm, x)}
               x == IF ok = {} THEN -1 ELSE CHOOSE z \in ok : \A y \in ok : z <= y
               x1 == IF x >= 0 THEN UopCycle(mop.u1, pm, x) ELSE -1
           IN  <<x1, IF commit /\ x1 >= 0 THEN Commit(mop.u2, Commit(mop.u1, pm, x1), x1) ELSE pm>>

\* ---- instruction creation (draws random bytes) ----------------------------------------------------
M1 == <<65535, 65535>>                     \* the value -1 as a 32-bit quantity
NullInstr == [t |-> NOPT, src |-> -1, dst |-> -1, mod |-> 0, imm |-> <<0, 0>>, grp |-> NOPT, par |-> <<0, 0>>, reuse |-> FALSE, parIsSrc |-> FALSE]
\* draw until the predicate holds (bounded loop over the stream; returns <<value, gen'>>)
\* (bounded folds: TLC re-evaluates the arguments of RECURSIVE operators at every use)
DrawRor(g) == LET r == FoldLeft(LAMBDA a, k : IF a[3] THEN a ELSE LET d == GetByte(a[2]) IN <<d[1] % 64, d[2], d[1] % 64 # 0>>,
                                <<0, g, FALSE>>, Range0(64))
              IN  <<r[1], r[2]>>
DrawRcp(g) == LET r == FoldLeft(LAMBDA a, k : IF a[3] THEN a ELSE LET d == GetU32(a[2]) IN <<d[1], d[2], ~IsZeroOrPow2Limbs(d[1])>>,
                                <<<<0, 0>>, g, FALSE>>, Range0(16))
              IN  <<r[1], r[2]>>

\* create(type, gen, prevPar): <<instruction, gen'>>  (opGroupPar is NOT reset for source-parameter types)
Create(t, g, prevPar) ==
  LET base == [NullInstr EXCEPT !.t = t, !.par = prevPar]
  IN  CASE t = ISUB_R -> <<[base EXCEPT !.grp = IADD_RS, !.parIsSrc = TRUE], g>>
        [] t = IXOR_R -> <<[base EXCEPT !.grp = IXOR_R, !.parIsSrc = TRUE], g>>
        [] t = IADD_RS -> LET d == GetByte(g) IN <<[base EXCEPT !.mod = d[1], !.grp = IADD_RS, !.parIsSrc = TRUE], d[2]>>
        [] t = IMUL_R -> <<[base EXCEPT !.grp = IMUL_R, !.parIsSrc = TRUE], g>>
        [] t = IROR_C -> LET d == DrawRor(g) IN <<[base EXCEPT !.imm = <<d[1], 0>>, !.grp = IROR_C, !.par = M1], d[2]>>
        [] t \in {IADD_C7, IADD_C8, IADD_C9} -> LET d == GetU32(g) IN <<[base EXCEPT !.imm = d[1], !.grp = IADD_C7, !.par = M1], d[2]>>
        [] t \in {IXOR_C7, IXOR_C8, IXOR_C9} -> LET d == GetU32(g) IN <<[base EXCEPT !.imm = d[1], !.grp = IXOR_C7, !.par = M1], d[2]>>
        [] t \in {IMULH_R, ISMULH_R} -> LET d == GetU32(g) IN <<[base EXCEPT !.reuse = TRUE, !.grp = t, !.par = d[1]], d[2]>>
        [] t = IMUL_RCP -> LET d == DrawRcp(g) IN <<[base EXCEPT !.imm = d[1], !.grp = IMUL_RCP, !.par = M1], d[2]>>

CreateForSlot(g, slot, fetchType, isLast, prevPar) ==
  CASE slot = 3 -> LET d == GetByte(g)
                   IN  IF isLast THEN Create(<<ISUB_R, IXOR_R, IMULH_R, ISMULH_R>>[(d[1] % 4) + 1], d[2], prevPar)
                       ELSE Create(<<ISUB_R, IXOR_R>>[(d[1] % 2) + 1], d[2], prevPar)
    [] slot = 4 -> IF fetchType = 4 /\ ~isLast THEN Create(IMUL_R, g, prevPar)
                   ELSE LET d == GetByte(g) IN Create(<<IROR_C, IADD_RS>>[(d[1] % 2) + 1], d[2], prevPar)
    [] slot = 7 -> LET d == GetByte(g) IN Create(<<IXOR_C7, IADD_C7>>[(d[1] % 2) + 1], d[2], prevPar)
    [] slot = 8 -> LET d == GetByte(g) IN Create(<<IXOR_C8, IADD_C8>>[(d[1] % 2) + 1], d[2], prevPar)
    [] slot = 9 -> LET d == GetByte(g) IN Create(<<IXOR_C9, IADD_C9>>[(d[1] % 2) + 1], d[2], prevPar)
    [] slot = 10 -> Create(IMUL_RCP, g, prevPar)

\* ---- operand selection ----------------------------------------------------------------------------
RegPar(r) == <<r, 0>>
\* ordered list of the registers satisfying P
Avail(P(_)) == SelectSeq(<<0, 1, 2, 3, 4, 5, 6, 7>>, P)
\* <<found, register, gen'>>
SelectRegister(av, g) == IF Len(av) = 0 THEN <<FALSE, -1, g>>
                         ELSE IF Len(av) > 1 THEN LET d == GetU32(g) IN <<TRUE, av[U32Mod(d[1], Len(av)) + 1], d[2]>>
                         ELSE <<TRUE, av[1], g>>
\* <<found, instr', gen'>>
SelectSource(ins, cyc, regs, g) ==
  LET av == Avail(LAMBDA i : regs[i + 1].lat <= cyc)
  IN  IF Len(av) = 2 /\ ins.t = IADD_RS /\ (av[1] = R5 \/ av[2] = R5)
      THEN <<TRUE, [ins EXCEPT !.src = R5, !.par = RegPar(R5)], g>>
      ELSE LET s == SelectRegister(av, g)
           IN  IF s[1] THEN <<TRUE, [ins EXCEPT !.src = s[2], !.par = IF ins.parIsSrc THEN RegPar(s[2]) ELSE ins.par], s[3]>>
               ELSE <<FALSE, ins, s[3]>>
SelectDestination(ins, cyc, chained, regs, g) ==
  LET ok(i) == /\ regs[i + 1].lat <= cyc
               /\ (ins.reuse \/ i # ins.src)
               /\ (chained \/ ins.grp # IMUL_R \/ regs[i + 1].grp # IMUL_R)
               /\ (regs[i + 1].grp # ins.grp \/ regs[i + 1].par # ins.par)
               /\ (ins.t # IADD_RS \/ i # R5)
      s == SelectRegister(Avail(ok), g)
  IN  <<s[1], [ins EXCEPT !.dst = IF s[1] THEN s[2] ELSE ins.dst], s[3]>>

\* look-ahead: try up to LookForward consecutive cycles; <<found, instr', gen', cycles advanced>>
\* accumulator <<found, instr, gen, failures>>
LookSrc(ins, cyc, regs, g, k0) ==
  FoldLeft(LAMBDA a, k : IF a[1] THEN a
                         ELSE LET s == SelectSource(a[2], cyc + k, regs, a[3])
                              IN  IF s[1] THEN <<TRUE, s[2], s[3], a[4]>> ELSE <<FALSE, a[2], s[3], a[4] + 1>>,
           <<FALSE, ins, g, 0>>, Range0(LookForward))
LookDst(ins, cyc, chained, regs, g, k0) ==
  FoldLeft(LAMBDA a, k : IF a[1] THEN a
                         ELSE LET s == SelectDestination(a[2], cyc + k, chained, regs, a[3])
                              IN  IF s[1] THEN <<TRUE, s[2], s[3], a[4]>> ELSE <<FALSE, a[2], s[3], a[4] + 1>>,
           <<FALSE, ins, g, 0>>, Range0(LookForward))

\* ---- the generator machine ------------------------------------------------------------------------
ToInstr(ins) == [op |-> ins.t, dst |-> ins.dst, src |-> IF ins.src >= 0 THEN ins.src ELSE ins.dst, mod |-> ins.mod, imm |-> ins.imm]
NSize(ins) == Len(Info(ins.t).ops)

GenState0(g) ==
  [g |-> g, pm |-> [c \in 1..MapSize |-> {}], regs |-> [i \in 1..8 |-> [lat |-> 0, grp |-> NOPT, par |-> M1]],
   buf |-> -1, cur |-> NullInstr, mopIdx |-> 0, bufIdx |-> 0, cycle |-> 0, dep |-> 0, retire |-> 0, sat |-> FALSE,
   prog |-> <<>>, mul |-> 0, dc |-> 0, throw |-> 0, phase |-> "fetch", macroOps |-> 0,
   stat |-> <<0, 0, 0, 0, 0, 0>>]   \* path statistics (ghost): throw-aways, aborted buffers, look-ahead cycles, port saturations, max consecutive throw-aways,
                                     \* throw-aways for lack of a destination after the source search had already stalled

StatAdd(st, i, n) == [st EXCEPT ![i] = st[i] + n]
StatMax(st, i, n) == [st EXCEPT ![i] = IF n > st[i] THEN n ELSE st[i]]
\* fetchNext: choose the decoder group for decode cycle s.dc
Fetch(s) ==
  IF ~(s.dc < Latency /\ ~s.sat /\ Len(s.prog) < MaxSize) THEN [s EXCEPT !.phase = "done"]
  ELSE LET t == s.cur.t
       IN  IF t \in {IMULH_R, ISMULH_R} THEN [s EXCEPT !.buf = 5, !.bufIdx = 0, !.phase = "slot"]
           ELSE IF s.mul < s.dc + 1 THEN [s EXCEPT !.buf = 4, !.bufIdx = 0, !.phase = "slot"]
           ELSE IF t = IMUL_RCP THEN LET d == GetByte(s.g) IN [s EXCEPT !.buf = IF d[1] % 2 = 1 THEN 0 ELSE 3, !.g = d[2], !.bufIdx = 0, !.phase = "slot"]
           ELSE LET d == GetByte(s.g) IN [s EXCEPT !.buf = d[1] % 4, !.g = d[2], !.bufIdx = 0, !.phase = "slot"]

EndCycle(s) == [s EXCEPT !.cycle = s.cycle + 1, !.dc = s.dc + 1, !.phase = "fetch"]

\* one iteration of the inner loop over the slots of the current decoder group
Slot(s) ==
  LET counts == Buffers[s.buf + 1]
  IN  IF s.bufIdx >= Len(counts) THEN EndCycle(s)
      ELSE
      LET topCycle == s.cycle
          needNew == s.mopIdx >= NSize(s.cur)
      IN  IF needNew /\ (s.sat \/ Len(s.prog) >= MaxSize) THEN EndCycle(s)
          ELSE
          LET cr == IF needNew THEN CreateForSlot(s.g, counts[s.bufIdx + 1], s.buf, Len(counts) = s.bufIdx + 1, s.cur.par) ELSE <<s.cur, s.g>>
              cur0 == cr[1]   g0 == cr[2]
              mi == IF needNew THEN 0 ELSE s.mopIdx
              info == Info(cur0.t)
              mop == info.ops[mi + 1]
              sc0 == SchedMop(mop, s.pm, s.cycle, s.dep, FALSE)[1]
          IN  IF sc0 < 0 THEN EndCycle([s EXCEPT !.g = g0, !.cur = cur0, !.mopIdx = mi, !.sat = TRUE, !.stat = StatAdd(s.stat, 4, 1)])
              ELSE
              LET ls == IF mi = info.srcOp THEN LookSrc(cur0, sc0, s.regs, g0, 0) ELSE <<TRUE, cur0, g0, 0>>
              IN  IF ~ls[1]
                  THEN \* source not found within the look-ahead window: throw the instruction away (cycle stays advanced)
                       IF s.throw < MaxThrowAway
                       THEN [s EXCEPT !.g = ls[3], !.cur = ls[2], !.cycle = s.cycle + ls[4], !.throw = s.throw + 1, !.mopIdx = NSize(cur0),
                                      !.stat = StatMax(StatAdd(StatAdd(s.stat, 1, 1), 3, ls[4]), 5, s.throw + 1)]
                       ELSE EndCycle([s EXCEPT !.g = ls[3], !.cur = NullInstr, !.cycle = s.cycle + ls[4], !.mopIdx = 0,
                                               !.stat = StatAdd(StatAdd(s.stat, 2, 1), 3, ls[4])])
                  ELSE
                  LET sc1 == sc0 + ls[4]   cyc1 == s.cycle + ls[4]
                      ld == IF mi = info.dstOp THEN LookDst(ls[2], sc1, s.throw > 0, s.regs, ls[3], 0) ELSE <<TRUE, ls[2], ls[3], 0>>
                  IN  IF ~ld[1]
                      THEN IF s.throw < MaxThrowAway
                           THEN [s EXCEPT !.g = ld[3], !.cur = ld[2], !.cycle = cyc1 + ld[4], !.throw = s.throw + 1, !.mopIdx = NSize(cur0),
                                          !.stat = StatAdd(StatMax(StatAdd(StatAdd(s.stat, 1, 1), 3, ls[4] + ld[4]), 5, s.throw + 1), 6, IF ls[4] > 0 THEN 1 ELSE 0)]
                           ELSE EndCycle([s EXCEPT !.g = ld[3], !.cur = NullInstr, !.cycle = cyc1 + ld[4], !.mopIdx = 0,
                                                   !.stat = StatAdd(StatAdd(s.stat, 2, 1), 3, ls[4] + ld[4])])
                      ELSE
                      LET sc2 == sc1 + ld[4]
                          cur2 == ld[2]
                          cm == SchedMop(mop, s.pm, sc2, sc2, TRUE)
                          sc3 == cm[1]
                      IN  IF sc3 < 0 THEN EndCycle([s EXCEPT !.g = ld[3], !.cur = cur2, !.mopIdx = mi, !.sat = TRUE, !.throw = 0, !.cycle = cyc1 + ld[4]])
                          ELSE
                          LET dep2 == sc3 + mop.lat
                              isRes == mi = info.res
                              regs2 == IF isRes THEN [s.regs EXCEPT ![cur2.dst + 1] = [lat |-> dep2, grp |-> cur2.grp, par |-> cur2.par]] ELSE s.regs
                              mi2 == mi + 1
                              finished == mi2 >= Len(info.ops)
                          IN  [s EXCEPT !.g = ld[3], !.cur = cur2, !.pm = cm[2], !.regs = regs2, !.dep = dep2,
                                        !.retire = IF isRes THEN dep2 ELSE s.retire,
                                        !.throw = 0, !.bufIdx = s.bufIdx + 1, !.mopIdx = mi2, !.macroOps = s.macroOps + 1,
                                        !.stat = StatAdd(s.stat, 3, ls[4] + ld[4]),
                                        !.sat = s.sat \/ sc3 >= Latency,
                                        !.cycle = topCycle,
                                        !.prog = IF finished THEN Append(s.prog, ToInstr(cur2)) ELSE s.prog,
                                        !.mul = IF finished /\ IsMul(cur2.t) THEN s.mul + 1 ELSE s.mul]

GenStep(s) == CASE s.phase = "fetch" -> Fetch(s) [] s.phase = "slot" -> Slot(s) [] OTHER -> s

\* ---- after generation: ASIC latencies, address register ---------------------------------------------
AsicLat(prog) == FoldLeft(LAMBDA lat, ins : LET ld == lat[ins.dst + 1] + 1
                                                ls == IF ins.dst # ins.src THEN lat[ins.src + 1] + 1 ELSE 0
                                            IN  [lat EXCEPT ![ins.dst + 1] = IF ld > ls THEN ld ELSE ls],
                          [i \in 1..8 |-> 0], prog)
\* first register with the maximal latency (strictly greater wins, scanning r0..r7; 0 if all zero)
AddrReg(prog) == LET lat == AsicLat(prog)
                 IN  FoldLeft(LAMBDA a, i : IF lat[i + 1] > a[2] THEN <<i, lat[i + 1]>> ELSE a, <<0, 0>>, Range0(8))[1]

\* generate one program from generator state g: <<program, gen'>>   (bounded number of machine steps)
GenBound == 4 * Latency + 600
Generate(g) == LET s == FoldLeft(LAMBDA st, k : IF st.phase = "done" THEN st ELSE GenStep(st), GenState0(g), Range0(GenBound))
               IN  <<s.prog, s.g, s.phase = "done", s.stat>>
\* n programs from a scripted block stream; also reports how many blocks were consumed
ProgramsScripted(blocks, n) ==
  LET r == FoldLeft(LAMBDA acc, i : LET p == Generate(acc[2]) IN <<Append(acc[1], p[1]), p[2], Append(acc[3], p[4])>>, << <<>>, GenScript(blocks), <<>> >>, Range0(n))
  IN  <<r[1], Len(blocks) - Len(r[2].rest), r[3]>>
\* the eight programs of a key
ProgramsStat(key) == FoldLeft(LAMBDA acc, i : LET p == Generate(acc[2]) IN <<Append(acc[1], p[1]), p[2], Append(acc[3], p[4])>>,
                          << <<>>, GenInit(key, 0), <<>> >>, Range0(8))
Programs(key) == ProgramsStat(key)[1]

\* ---- well-formedness (Table 6.1.1) ------------------------------------------------------------------
WellFormedInstr(ins) ==
  /\ ins.op \in 0..13 /\ ins.dst \in 0..7 /\ ins.src \in 0..7
  /\ (ins.op \in {ISUB_R, IXOR_R, IADD_RS, IMUL_R} => ins.dst # ins.src)
  /\ (ins.op = IADD_RS => ins.dst # R5)
  /\ (ins.op = IROR_C => ins.imm[1] % 64 # 0)
  /\ (ins.op = IMUL_RCP => ~IsZeroOrPow2Limbs(ins.imm))
WellFormed(prog) == Len(prog) >= 1 /\ Len(prog) <= MaxSize /\ \A i \in 1..Len(prog) : WellFormedInstr(prog[i])

\* ---- execution --------------------------------------------------------------------------------------
ExecInstr(r, ins) ==
  LET D == r[ins.dst + 1]   S == r[ins.src + 1]   imm == SignExt32(ins.imm)
      v == CASE ins.op = ISUB_R -> WSub(D, S)
             [] ins.op = IXOR_R -> WXor(D, S)
             [] ins.op = IADD_RS -> WAdd(D, WShl(S, (ins.mod \div 4) % 4))
             [] ins.op = IMUL_R -> WMul(D, S)
             [] ins.op = IROR_C -> WRotR(D, ins.imm[1] % 64)
             [] ins.op \in {IADD_C7, IADD_C8, IADD_C9} -> WAdd(D, imm)
             [] ins.op \in {IXOR_C7, IXOR_C8, IXOR_C9} -> WXor(D, imm)
             [] ins.op = IMULH_R -> WMulH(D, S)
             [] ins.op = ISMULH_R -> WSMulH(D, S)
             [] ins.op = IMUL_RCP -> WMul(D, Rcp(ins.imm))
  IN  [r EXCEPT ![ins.dst + 1] = v]
ExecProgram(r, prog) == FoldLeft(LAMBDA acc, ins : ExecInstr(acc, ins), r, prog)

\* ---- 7.3 Dataset item: progs = the 8 programs, line(k) = 8 words of cache line k (k < 2^22) ---------------
Mul0 == <<32557, 19605, 62509, 22609>>      \* 6364136223846793005 = 0x5851F42D4C957F2D
ItemAdds == << <<41468, 23029, 38794, 33034>>,
               <<55366, 14530, 39391, 42864>>,
               <<18780, 48930, 47388, 33062>>,
               <<35426, 6047, 9623, 18765>>,
               <<60428, 52906, 61369, 37431>>,
               <<11640, 27878, 22132, 12074>>,
               <<58702, 46636, 15351, 33925>> >>
\* item number as a word from two 16-bit halves (item < 2^32)
\* addrs[i] = address register of program i (AddrReg of the program when it comes from the generator)
ItemA(progs, addrs, line, itemLo, itemHi) ==
  LET n == <<itemLo, itemHi, 0, 0>>
      r0 == WMul(WAdd(n, W1), Mul0)
      regs0 == <<r0>> \o [i \in 1..7 |-> WXor(r0, ItemAdds[i])]
      step(acc, i) ==
        LET idx == acc[2][1] + 65536 * (acc[2][2] % 64)                 \* register value mod 2^22 cache lines
            mix == line[idx]
            r1 == ExecProgram(acc[1], progs[i + 1])
            r2 == [k \in 1..8 |-> WXor(r1[k], mix[k])]
        IN  <<r2, r2[addrs[i + 1] + 1]>>
  IN  FoldLeft(step, <<regs0, n>>, Range0(8))[1]
Item(progs, line, itemLo, itemHi) ==
  LET n == <<itemLo, itemHi, 0, 0>>
      r0 == WMul(WAdd(n, W1), Mul0)
      regs0 == <<r0>> \o [i \in 1..7 |-> WXor(r0, ItemAdds[i])]
      step(acc, i) ==
        LET idx == acc[2][1] + 65536 * (acc[2][2] % 64)                 \* register value mod 2^22 cache lines
            mix == line[idx]
            r1 == ExecProgram(acc[1], progs[i + 1])
            r2 == [k \in 1..8 |-> WXor(r1[k], mix[k])]
        IN  <<r2, r2[AddrReg(progs[i + 1]) + 1]>>
  IN  FoldLeft(step, <<regs0, n>>, Range0(8))[1]
=============================================================================
