------------------------------- MODULE TraceAes -------------------------------
(***************************************************************************)
(* Validates recordings of the real AES code against Aes.tla:              *)
(*  round     one aesenc/aesdec through the table-driven software path and *)
(*            through the hardware instruction, same (state,key)           *)
(*  fill1/4   AesGenerator1R / 4R: seed, number of 64-byte blocks, output  *)
(*            and updated state, software and hardware                     *)
(*  hash1     AesHash1R of a buffer, software and hardware                 *)
(*  hashfill  the combined fingerprint-and-refill step                     *)
(*  lut       the eight T-tables of soft_aes.cpp                           *)
(*  chain     local links of a long generator run (block j-1 -> block j)   *)
(*  same      byte-difference counts between software and hardware output  *)
(*            of full-size runs (the specification requires 0)             *)
(* Buffers are logged as 16-bit limbs.                                     *)
(***************************************************************************)
EXTENDS Aes, Json, IOUtils

TraceLog == ndJsonDeserialize(IOEnv.TRACE)
VARIABLE l

B(limbs) == LimbsToBytes(limbs)

RoundOk(ev) ==
  LET want == IF ev.kind = "enc" THEN Enc(B(ev.s), B(ev.k)) ELSE Dec(B(ev.s), B(ev.k))
  IN  B(ev.soft) = want /\ B(ev.hard) = want

\* an input of sizeHigh * 2^32 + bit31 * 2^31 + sizeLow31 zero bytes (at least 2^31): its fingerprint is neither the fingerprint of the
\* empty input (which the specification recomputes) nor the one of the input truncated to 32 bits, and both AES paths agree
HugeHashOk(ev) == /\ (ev.sizeHigh > 0 \/ ev.bit31)
                  /\ LimbsToBytes(ev.empty) = Hash1R(<<>>)
                  /\ ev.hard # ev.empty
                  /\ ((ev.sizeHigh > 0) => ev.hard # ev.trunc)
                  /\ (ev.hasSoft => ev.soft = ev.hard)
\* the canary bytes behind the output buffers are intact: a routine asked for n bytes writes n bytes (n = 0: nothing)
GuardOk(ev) == ("guard" \in DOMAIN ev) => ev.guard
FillOk(ev, four) ==
  LET g == IF four THEN Gen4(B(ev.state), ev.n) ELSE Gen1(B(ev.state), ev.n)
  IN  /\ B(ev.soft_out) = g[1] /\ B(ev.hard_out) = g[1]
      \* AesGenerator1R hands its final state back (it seeds AesGenerator4R, specs.md 2 step 4);
      \* the 4R routine takes its seed by value: the caller re-seeds it before every program
      \* (step 10), so the seed buffer must come back unchanged
      /\ LET fin == IF four THEN B(ev.state) ELSE Flat(g[2])
         IN  B(ev.soft_state) = fin /\ B(ev.hard_state) = fin

HashOk(ev) == LET h == Hash1R(B(ev.input)) IN B(ev.soft) = h /\ B(ev.hard) = h

HashFillOk(ev) ==
  LET r == HashAndFill(B(ev.sp), B(ev.fill))
  IN  /\ B(ev.soft_hash) = r.hash /\ B(ev.hard_hash) = r.hash
      /\ B(ev.soft_sp) = r.buf /\ B(ev.hard_sp) = r.buf
      /\ B(ev.soft_fill) = r.state /\ B(ev.hard_fill) = r.state

\* table i of kind enc/dec: 256 entries of 4 bytes (little-endian uint32)
LutOk(ev) ==
  \A x \in 0..255 : ev.tab[x + 1] = (IF ev.kind = "enc" THEN EncT(ev.i, x) ELSE DecT(ev.i, x))

\* one link of a generator chain: next = step(prev); gen = 1 or 4
ChainOk(ev) ==
  LET st == Cols(B(ev.prev))
      nx == IF ev.gen = 4 THEN Gen4Step(st) ELSE Gen1Step(st)
  IN  B(ev.next) = Flat(nx)

SameOk(ev) == ev.diff = 0

EventOk(ev) ==
  CASE ev.e = "round" -> RoundOk(ev)
    [] ev.e = "fill1" -> FillOk(ev, FALSE) /\ GuardOk(ev)
    [] ev.e = "fill4" -> FillOk(ev, TRUE) /\ GuardOk(ev)
    [] ev.e = "hash1" -> HashOk(ev)
    [] ev.e = "hashfill" -> HashFillOk(ev) /\ GuardOk(ev)
    [] ev.e = "hugehash" -> HugeHashOk(ev)
    [] ev.e = "lut" -> LutOk(ev)
    [] ev.e = "chain" -> ChainOk(ev)
    [] ev.e = "same" -> SameOk(ev)
    [] OTHER -> FALSE

Init == l = 1
Next == /\ l <= Len(TraceLog)
        /\ EventOk(TraceLog[l])
        /\ l' = l + 1
Spec == Init /\ [][Next]_l
Accepted == TLCGet("stats").diameter - 1 = Len(TraceLog)
=============================================================================
