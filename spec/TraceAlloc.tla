------------------------------ MODULE TraceAlloc ------------------------------
(***************************************************************************)
(* Trace validation for C15: every public call recorded by harness/rx_api  *)
(* with --os 1 carries the memory requests it issued (heap blocks, page    *)
(* mappings, large-page mappings, with the model's size-class names), the  *)
(* armed failure index, the return value and live-heap-block / mapped-byte *)
(* counters before and after.  A creating call must be the RxAlloc action  *)
(* Create(o, op, flags, failAt): its request sequence is exactly the       *)
(* model's step list up to the first failing step, it returns NULL iff the *)
(* model says a step failed, and on failure the counters are back to their *)
(* values at entry.  Releases must give back what the model says the       *)
(* object owns; when the model holds no object, nothing may be live.       *)
(***************************************************************************)
EXTENDS RxAlloc, Json, IOUtils

CONSTANT StrictSteps    \* TRUE: additionally require conformance with the RxAlloc step model

TraceLog == ndJsonDeserialize(IOEnv.TRACE)
VARIABLES l, ids      \* ids: harness object name -> model object (first free one)
tvars == <<vars, l, ids>>
Ev == TraceLog[l]
Is(e) == l <= Len(TraceLog) /\ Ev.e = e /\ l' = l + 1

CodeBytes == 81920
FlagJit == 8
FlagLarge == 1
HasFlag(x, bit) == (x \div bit) % 2 = 1
FlagsOf(ev) == [jit |-> HasFlag(ev.flags, FlagJit), large |-> HasFlag(ev.flags, FlagLarge),
                key |-> ("keyLong" \in DOMAIN ev /\ ev.keyLong)]

\* requests (allocations and mappings) among the OS events of a call, in order
IsReq(o) == o.k \in {"a", "M"}
Reqs(ev) == SelectSeq(ev.os, IsReq)
KindOf(o) == IF o.k = "a" THEN "heap" ELSE IF o.huge THEN "huge" ELSE "map"
Matches(o, step) == KindOf(o) = step.kind /\ o.n = step.name

NameOf(ev) == CASE ev.e = "AllocCache" -> ev.c [] ev.e = "AllocDataset" -> ev.d [] ev.e = "CreateVm" -> ev.v
OpOf(ev) == CASE ev.e = "AllocCache" -> "alloc_cache" [] ev.e = "AllocDataset" -> "alloc_dataset" [] ev.e = "CreateVm" -> "create_vm"
FreeObj == CHOOSE o \in Objs : obj[o].state = "none"

\* Property level (C15 as stated): a request failed during the call (injected, or refused by the OS)
\*   <=> the call returns NULL, and then heap blocks / mapped bytes / heap bytes are exactly as at entry.
\* Model conformance (StrictSteps): the request sequence is the model's step list and the call is
\*   the RxAlloc action Create(o, op, flags, failAt) with the same outcome and resource deltas.
AnyRefused(rq) == \E i \in 1..Len(rq) : ~rq[i].ok
TCreate ==
  /\ l <= Len(TraceLog) /\ Ev.e \in {"AllocCache", "AllocDataset", "CreateVm"} /\ l' = l + 1
  /\ LET f == FlagsOf(Ev)
         op == OpOf(Ev)
         steps == Steps(op, f)
         rq == Reqs(Ev)
         o == FreeObj
         fa == IF Ev.failAt \in 1..Len(steps) THEN Ev.failAt ELSE 0
         ff == FirstFailure(steps, fa)
         failed == Ev.faultFired \/ AnyRefused(rq)
     IN  /\ Ev.ok = ~failed
         /\ (failed => (Ev.blocks1 = Ev.blocks0 /\ Ev.mapped1 = Ev.mapped0 /\ Ev.heap1 = Ev.heap0))
         /\ (~failed => (Ev.blocks1 > Ev.blocks0))
         /\ (Ev.failAt > 0 /\ Ev.failAt <= Ev.reqs => Ev.faultFired)
         /\ IF StrictSteps
            THEN /\ Create(o, op, f, fa)
                 /\ Ev.ok = lastCall'.ok
                 /\ IF ff = 0
                    THEN /\ Len(rq) = Len(steps)
                         /\ \A i \in 1..Len(steps) : Matches(rq[i], steps[i]) /\ rq[i].ok
                         /\ Ev.blocks1 - Ev.blocks0 = Cardinality({i \in 1..Len(steps) : steps[i].kind = "heap"})
                         /\ Ev.mapped1 - Ev.mapped0 = CodeBytes * Cardinality({i \in 1..Len(steps) : steps[i].kind = "map"})
                    ELSE /\ Len(rq) >= ff
                         /\ \A i \in 1..ff : Matches(rq[i], steps[i]) /\ (rq[i].ok <=> i < ff)
                         /\ \A i \in (ff + 1)..Len(rq) : rq[i].n = "other"
                         /\ Ev.faultFired = (fa = ff)
            ELSE \* without the step model only track which objects exist
                 IF failed THEN UNCHANGED vars
                 ELSE /\ obj' = [obj EXCEPT ![o] = [state |-> "live", op |-> op, flags |-> f, fields |-> {}]]
                      /\ UNCHANGED <<live, lastCall>>
         /\ ids' = IF failed THEN ids ELSE [ids EXCEPT ![NameOf(Ev)] = o]

TDestroy ==
  /\ l <= Len(TraceLog) /\ Ev.e \in {"ReleaseCache", "ReleaseDataset", "DestroyVm"} /\ l' = l + 1
  /\ LET n == CASE Ev.e = "ReleaseCache" -> Ev.c [] Ev.e = "ReleaseDataset" -> Ev.d [] Ev.e = "DestroyVm" -> Ev.v
         o == ids[n]
         steps == Steps(obj[o].op, obj[o].flags)
     IN  /\ o \in Objs
         /\ Reqs(Ev) = <<>>
         /\ Ev.blocks1 < Ev.blocks0
         /\ IF StrictSteps
            THEN /\ Destroy(o)
                 /\ Ev.blocks0 - Ev.blocks1 >= Cardinality({i \in 1..Len(steps) : steps[i].kind = "heap"})
                 /\ Ev.mapped0 - Ev.mapped1 = CodeBytes * Cardinality({i \in 1..Len(steps) : steps[i].kind = "map"})
            ELSE /\ obj' = [obj EXCEPT ![o] = NoObj] /\ UNCHANGED <<live, lastCall>>
         /\ ids' = [ids EXCEPT ![n] = "none"]
         \* nothing alive any more => the process holds nothing of the library: no leak over create/use/destroy cycles
         /\ ((\A x \in Objs : obj'[x].state = "none") => (Ev.blocks1 = 0 /\ Ev.mapped1 = 0 /\ Ev.heap1 = 0))

\* calls that use objects: may keep small heap blocks inside the objects (vectors, key strings),
\* never change the mapped byte count, never fail
TUse == /\ l <= Len(TraceLog) /\ Ev.e \in {"InitCache", "SetCache", "SetDataset", "SetV2", "HashFirst", "InitDatasetChunk"} /\ l' = l + 1
        /\ ("mapped1" \in DOMAIN Ev => Ev.mapped1 = Ev.mapped0)
        /\ UNCHANGED <<vars, ids>>
\* a hash after failures must still be the right one (library fully usable)
THash == /\ l <= Len(TraceLog) /\ Ev.e \in {"Hash", "HashNext", "HashLast"} /\ l' = l + 1
         /\ Ev.out = Ev.fresh /\ Ev.mapped1 = Ev.mapped0
         /\ UNCHANGED <<vars, ids>>
TReset == /\ Is("Reset") /\ live' = {} /\ obj' = [o \in Objs |-> NoObj] /\ lastCall' = [op |-> "none"]
          /\ ids' = [n \in DOMAIN ids |-> "none"]

Names == {"c1", "c2", "d1", "v1", "v2"}
TraceInit == Init /\ l = 1 /\ ids = [n \in Names |-> "none"]
TraceNext == TCreate \/ TDestroy \/ TUse \/ THash \/ TReset
TraceSpec == TraceInit /\ [][TraceNext]_tvars
Accepted == TLCGet("stats").diameter - 1 = Len(TraceLog)
=============================================================================
