SPECIFICATION TraceSpec
CONSTANTS
  Objs = {"o1", "o2", "o3", "o4"}
  HugeAvailable = FALSE
  DeallocEarlyOut = FALSE
  StrictSteps = TRUE
INVARIANT NoLeak
INVARIANT CyclesDoNotGrow
POSTCONDITION Accepted
CHECK_DEADLOCK FALSE
