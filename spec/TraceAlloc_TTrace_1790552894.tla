---- MODULE TraceAlloc_TTrace_1790552894 ----
EXTENDS Sequences, TLCExt, Toolbox, Naturals, TLC, TraceAlloc

_expression ==
    LET TraceAlloc_TEExpression == INSTANCE TraceAlloc_TEExpression
    IN TraceAlloc_TEExpression!expression
----

_trace ==
    LET TraceAlloc_TETrace == INSTANCE TraceAlloc_TETrace
    IN TraceAlloc_TETrace!trace
----

_inv ==
    ~(
        TLCGet("level") = Len(_TETrace)
        /\
        obj = ([o1 |-> [flags |-> [jit |-> FALSE, large |-> FALSE], state |-> "none", op |-> "none", fields |-> {}], o2 |-> [flags |-> [jit |-> FALSE, large |-> FALSE], state |-> "none", op |-> "none", fields |-> {}], o3 |-> [flags |-> [jit |-> FALSE, large |-> FALSE], state |-> "none", op |-> "none", fields |-> {}], o4 |-> [flags |-> [jit |-> FALSE, large |-> FALSE], state |-> "none", op |-> "none", fields |-> {}]])
        /\
        ids = ([c1 |-> "none", c2 |-> "none", d1 |-> "none", v1 |-> "none", v2 |-> "none"])
        /\
        l = (16)
        /\
        live = ({})
        /\
        lastCall = ([op |-> "none"])
    )
----

_init ==
    /\ l = _TETrace[1].l
    /\ lastCall = _TETrace[1].lastCall
    /\ obj = _TETrace[1].obj
    /\ ids = _TETrace[1].ids
    /\ live = _TETrace[1].live
----

_next ==
    /\ \E i,j \in DOMAIN _TETrace:
        /\ \/ /\ j = i + 1
              /\ i = TLCGet("level")
        /\ l  = _TETrace[i].l
        /\ l' = _TETrace[j].l
        /\ lastCall  = _TETrace[i].lastCall
        /\ lastCall' = _TETrace[j].lastCall
        /\ obj  = _TETrace[i].obj
        /\ obj' = _TETrace[j].obj
        /\ ids  = _TETrace[i].ids
        /\ ids' = _TETrace[j].ids
        /\ live  = _TETrace[i].live
        /\ live' = _TETrace[j].live

\* Uncomment the ASSUME below to write the states of the error trace
\* to the given file in Json format. Note that you can pass any tuple
\* to `JsonSerialize`. For example, a sub-sequence of _TETrace.
    \* ASSUME
    \*     LET J == INSTANCE Json
    \*         IN J!JsonSerialize("TraceAlloc_TTrace_1790552894.json", _TETrace)

=============================================================================

 Note that you can extract this module `TraceAlloc_TEExpression`
  to a dedicated file to reuse `expression` (the module in the 
  dedicated `TraceAlloc_TEExpression.tla` file takes precedence 
  over the module `TraceAlloc_TEExpression` below).

---- MODULE TraceAlloc_TEExpression ----
EXTENDS Sequences, TLCExt, Toolbox, Naturals, TLC, TraceAlloc

expression == 
    [
        \* To hide variables of the `TraceAlloc` spec from the error trace,
        \* remove the variables below.  The trace will be written in the order
        \* of the fields of this record.
        l |-> l
        ,lastCall |-> lastCall
        ,obj |-> obj
        ,ids |-> ids
        ,live |-> live
        
        \* Put additional constant-, state-, and action-level expressions here:
        \* ,_stateNumber |-> _TEPosition
        \* ,_lUnchanged |-> l = l'
        
        \* Format the `l` variable as Json value.
        \* ,_lJson |->
        \*     LET J == INSTANCE Json
        \*     IN J!ToJson(l)
        
        \* Lastly, you may build expressions over arbitrary sets of states by
        \* leveraging the _TETrace operator.  For example, this is how to
        \* count the number of times a spec variable changed up to the current
        \* state in the trace.
        \* ,_lModCount |->
        \*     LET F[s \in DOMAIN _TETrace] ==
        \*         IF s = 1 THEN 0
        \*         ELSE IF _TETrace[s].l # _TETrace[s-1].l
        \*             THEN 1 + F[s-1] ELSE F[s-1]
        \*     IN F[_TEPosition - 1]
    ]

=============================================================================



Parsing and semantic processing can take forever if the trace below is long.
 In this case, it is advised to uncomment the module below to deserialize the
 trace from a generated binary file.

\*
\*---- MODULE TraceAlloc_TETrace ----
\*EXTENDS IOUtils, TLC, TraceAlloc
\*
\*trace == IODeserialize("TraceAlloc_TTrace_1790552894.bin", TRUE)
\*
\*=============================================================================
\*

---- MODULE TraceAlloc_TETrace ----
EXTENDS TLC, TraceAlloc

trace == 
    <<
    ([obj |-> [o1 |-> [flags |-> [jit |-> FALSE, large |-> FALSE], state |-> "none", op |-> "none", fields |-> {}], o2 |-> [flags |-> [jit |-> FALSE, large |-> FALSE], state |-> "none", op |-> "none", fields |-> {}], o3 |-> [flags |-> [jit |-> FALSE, large |-> FALSE], state |-> "none", op |-> "none", fields |-> {}], o4 |-> [flags |-> [jit |-> FALSE, large |-> FALSE], state |-> "none", op |-> "none", fields |-> {}]],ids |-> [c1 |-> "none", c2 |-> "none", d1 |-> "none", v1 |-> "none", v2 |-> "none"],l |-> 1,live |-> {},lastCall |-> [op |-> "none"]]),
    ([obj |-> [o1 |-> [flags |-> [jit |-> FALSE, large |-> FALSE], state |-> "none", op |-> "none", fields |-> {}], o2 |-> [flags |-> [jit |-> FALSE, large |-> FALSE], state |-> "none", op |-> "none", fields |-> {}], o3 |-> [flags |-> [jit |-> FALSE, large |-> FALSE], state |-> "none", op |-> "none", fields |-> {}], o4 |-> [flags |-> [jit |-> FALSE, large |-> FALSE], state |-> "none", op |-> "none", fields |-> {}]],ids |-> [c1 |-> "none", c2 |-> "none", d1 |-> "none", v1 |-> "none", v2 |-> "none"],l |-> 2,live |-> {},lastCall |-> [op |-> "none"]]),
    ([obj |-> [o1 |-> [flags |-> [jit |-> FALSE, large |-> FALSE], state |-> "none", op |-> "none", fields |-> {}], o2 |-> [flags |-> [jit |-> FALSE, large |-> FALSE], state |-> "none", op |-> "none", fields |-> {}], o3 |-> [flags |-> [jit |-> FALSE, large |-> FALSE], state |-> "none", op |-> "none", fields |-> {}], o4 |-> [flags |-> [jit |-> FALSE, large |-> FALSE], state |-> "none", op |-> "none", fields |-> {}]],ids |-> [c1 |-> "none", c2 |-> "none", d1 |-> "none", v1 |-> "none", v2 |-> "none"],l |-> 3,live |-> {},lastCall |-> [flags |-> [jit |-> FALSE, large |-> FALSE], op |-> "alloc_cache", failAt |-> 2, ok |-> FALSE, failed |-> 2, requests |-> <<[kind |-> "heap", name |-> "cacheStruct"], [kind |-> "heap", name |-> "cacheMem"]>>, acquired |-> 1, released |-> 1]]),
    ([obj |-> [o1 |-> [flags |-> [jit |-> FALSE, large |-> FALSE], state |-> "live", op |-> "alloc_cache", fields |-> 1..2], o2 |-> [flags |-> [jit |-> FALSE, large |-> FALSE], state |-> "none", op |-> "none", fields |-> {}], o3 |-> [flags |-> [jit |-> FALSE, large |-> FALSE], state |-> "none", op |-> "none", fields |-> {}], o4 |-> [flags |-> [jit |-> FALSE, large |-> FALSE], state |-> "none", op |-> "none", fields |-> {}]],ids |-> [c1 |-> "o1", c2 |-> "none", d1 |-> "none", v1 |-> "none", v2 |-> "none"],l |-> 4,live |-> {<<"o1", 1>>, <<"o1", 2>>},lastCall |-> [flags |-> [jit |-> FALSE, large |-> FALSE], op |-> "alloc_cache", failAt |-> 0, ok |-> TRUE, failed |-> 0, requests |-> <<[kind |-> "heap", name |-> "cacheStruct"], [kind |-> "heap", name |-> "cacheMem"]>>, acquired |-> 2, released |-> 0]]),
    ([obj |-> [o1 |-> [flags |-> [jit |-> FALSE, large |-> FALSE], state |-> "live", op |-> "alloc_cache", fields |-> 1..2], o2 |-> [flags |-> [jit |-> FALSE, large |-> FALSE], state |-> "none", op |-> "none", fields |-> {}], o3 |-> [flags |-> [jit |-> FALSE, large |-> FALSE], state |-> "none", op |-> "none", fields |-> {}], o4 |-> [flags |-> [jit |-> FALSE, large |-> FALSE], state |-> "none", op |-> "none", fields |-> {}]],ids |-> [c1 |-> "o1", c2 |-> "none", d1 |-> "none", v1 |-> "none", v2 |-> "none"],l |-> 5,live |-> {<<"o1", 1>>, <<"o1", 2>>},lastCall |-> [flags |-> [jit |-> FALSE, large |-> FALSE], op |-> "alloc_cache", failAt |-> 0, ok |-> TRUE, failed |-> 0, requests |-> <<[kind |-> "heap", name |-> "cacheStruct"], [kind |-> "heap", name |-> "cacheMem"]>>, acquired |-> 2, released |-> 0]]),
    ([obj |-> [o1 |-> [flags |-> [jit |-> FALSE, large |-> FALSE], state |-> "live", op |-> "alloc_cache", fields |-> 1..2], o2 |-> [flags |-> [jit |-> TRUE, large |-> FALSE], state |-> "live", op |-> "create_vm", fields |-> 1..3], o3 |-> [flags |-> [jit |-> FALSE, large |-> FALSE], state |-> "none", op |-> "none", fields |-> {}], o4 |-> [flags |-> [jit |-> FALSE, large |-> FALSE], state |-> "none", op |-> "none", fields |-> {}]],ids |-> [c1 |-> "o1", c2 |-> "none", d1 |-> "none", v1 |-> "o2", v2 |-> "none"],l |-> 6,live |-> {<<"o1", 1>>, <<"o1", 2>>, <<"o2", 1>>, <<"o2", 2>>, <<"o2", 3>>},lastCall |-> [flags |-> [jit |-> TRUE, large |-> FALSE], op |-> "create_vm", failAt |-> 0, ok |-> TRUE, failed |-> 0, requests |-> <<[kind |-> "heap", name |-> "vmObj"], [kind |-> "map", name |-> "code"], [kind |-> "heap", name |-> "scratchpad"]>>, acquired |-> 3, released |-> 0]]),
    ([obj |-> [o1 |-> [flags |-> [jit |-> FALSE, large |-> FALSE], state |-> "live", op |-> "alloc_cache", fields |-> 1..2], o2 |-> [flags |-> [jit |-> TRUE, large |-> FALSE], state |-> "live", op |-> "create_vm", fields |-> 1..3], o3 |-> [flags |-> [jit |-> FALSE, large |-> FALSE], state |-> "none", op |-> "none", fields |-> {}], o4 |-> [flags |-> [jit |-> FALSE, large |-> FALSE], state |-> "none", op |-> "none", fields |-> {}]],ids |-> [c1 |-> "o1", c2 |-> "none", d1 |-> "none", v1 |-> "o2", v2 |-> "none"],l |-> 7,live |-> {<<"o1", 1>>, <<"o1", 2>>, <<"o2", 1>>, <<"o2", 2>>, <<"o2", 3>>},lastCall |-> [flags |-> [jit |-> TRUE, large |-> FALSE], op |-> "create_vm", failAt |-> 0, ok |-> TRUE, failed |-> 0, requests |-> <<[kind |-> "heap", name |-> "vmObj"], [kind |-> "map", name |-> "code"], [kind |-> "heap", name |-> "scratchpad"]>>, acquired |-> 3, released |-> 0]]),
    ([obj |-> [o1 |-> [flags |-> [jit |-> FALSE, large |-> FALSE], state |-> "live", op |-> "alloc_cache", fields |-> 1..2], o2 |-> [flags |-> [jit |-> FALSE, large |-> FALSE], state |-> "none", op |-> "none", fields |-> {}], o3 |-> [flags |-> [jit |-> FALSE, large |-> FALSE], state |-> "none", op |-> "none", fields |-> {}], o4 |-> [flags |-> [jit |-> FALSE, large |-> FALSE], state |-> "none", op |-> "none", fields |-> {}]],ids |-> [c1 |-> "o1", c2 |-> "none", d1 |-> "none", v1 |-> "none", v2 |-> "none"],l |-> 8,live |-> {<<"o1", 1>>, <<"o1", 2>>},lastCall |-> [flags |-> [jit |-> TRUE, large |-> FALSE], op |-> "release", released |-> 3, of |-> "create_vm"]]),
    ([obj |-> [o1 |-> [flags |-> [jit |-> FALSE, large |-> FALSE], state |-> "none", op |-> "none", fields |-> {}], o2 |-> [flags |-> [jit |-> FALSE, large |-> FALSE], state |-> "none", op |-> "none", fields |-> {}], o3 |-> [flags |-> [jit |-> FALSE, large |-> FALSE], state |-> "none", op |-> "none", fields |-> {}], o4 |-> [flags |-> [jit |-> FALSE, large |-> FALSE], state |-> "none", op |-> "none", fields |-> {}]],ids |-> [c1 |-> "none", c2 |-> "none", d1 |-> "none", v1 |-> "none", v2 |-> "none"],l |-> 9,live |-> {},lastCall |-> [flags |-> [jit |-> FALSE, large |-> FALSE], op |-> "release", released |-> 2, of |-> "alloc_cache"]]),
    ([obj |-> [o1 |-> [flags |-> [jit |-> FALSE, large |-> FALSE], state |-> "live", op |-> "alloc_cache", fields |-> 1..2], o2 |-> [flags |-> [jit |-> FALSE, large |-> FALSE], state |-> "none", op |-> "none", fields |-> {}], o3 |-> [flags |-> [jit |-> FALSE, large |-> FALSE], state |-> "none", op |-> "none", fields |-> {}], o4 |-> [flags |-> [jit |-> FALSE, large |-> FALSE], state |-> "none", op |-> "none", fields |-> {}]],ids |-> [c1 |-> "o1", c2 |-> "none", d1 |-> "none", v1 |-> "none", v2 |-> "none"],l |-> 10,live |-> {<<"o1", 1>>, <<"o1", 2>>},lastCall |-> [flags |-> [jit |-> FALSE, large |-> FALSE], op |-> "alloc_cache", failAt |-> 0, ok |-> TRUE, failed |-> 0, requests |-> <<[kind |-> "heap", name |-> "cacheStruct"], [kind |-> "heap", name |-> "cacheMem"]>>, acquired |-> 2, released |-> 0]]),
    ([obj |-> [o1 |-> [flags |-> [jit |-> FALSE, large |-> FALSE], state |-> "live", op |-> "alloc_cache", fields |-> 1..2], o2 |-> [flags |-> [jit |-> FALSE, large |-> FALSE], state |-> "none", op |-> "none", fields |-> {}], o3 |-> [flags |-> [jit |-> FALSE, large |-> FALSE], state |-> "none", op |-> "none", fields |-> {}], o4 |-> [flags |-> [jit |-> FALSE, large |-> FALSE], state |-> "none", op |-> "none", fields |-> {}]],ids |-> [c1 |-> "o1", c2 |-> "none", d1 |-> "none", v1 |-> "none", v2 |-> "none"],l |-> 11,live |-> {<<"o1", 1>>, <<"o1", 2>>},lastCall |-> [flags |-> [jit |-> FALSE, large |-> FALSE], op |-> "alloc_cache", failAt |-> 0, ok |-> TRUE, failed |-> 0, requests |-> <<[kind |-> "heap", name |-> "cacheStruct"], [kind |-> "heap", name |-> "cacheMem"]>>, acquired |-> 2, released |-> 0]]),
    ([obj |-> [o1 |-> [flags |-> [jit |-> FALSE, large |-> FALSE], state |-> "live", op |-> "alloc_cache", fields |-> 1..2], o2 |-> [flags |-> [jit |-> TRUE, large |-> FALSE], state |-> "live", op |-> "create_vm", fields |-> 1..3], o3 |-> [flags |-> [jit |-> FALSE, large |-> FALSE], state |-> "none", op |-> "none", fields |-> {}], o4 |-> [flags |-> [jit |-> FALSE, large |-> FALSE], state |-> "none", op |-> "none", fields |-> {}]],ids |-> [c1 |-> "o1", c2 |-> "none", d1 |-> "none", v1 |-> "o2", v2 |-> "none"],l |-> 12,live |-> {<<"o1", 1>>, <<"o1", 2>>, <<"o2", 1>>, <<"o2", 2>>, <<"o2", 3>>},lastCall |-> [flags |-> [jit |-> TRUE, large |-> FALSE], op |-> "create_vm", failAt |-> 0, ok |-> TRUE, failed |-> 0, requests |-> <<[kind |-> "heap", name |-> "vmObj"], [kind |-> "map", name |-> "code"], [kind |-> "heap", name |-> "scratchpad"]>>, acquired |-> 3, released |-> 0]]),
    ([obj |-> [o1 |-> [flags |-> [jit |-> FALSE, large |-> FALSE], state |-> "live", op |-> "alloc_cache", fields |-> 1..2], o2 |-> [flags |-> [jit |-> TRUE, large |-> FALSE], state |-> "live", op |-> "create_vm", fields |-> 1..3], o3 |-> [flags |-> [jit |-> FALSE, large |-> FALSE], state |-> "none", op |-> "none", fields |-> {}], o4 |-> [flags |-> [jit |-> FALSE, large |-> FALSE], state |-> "none", op |-> "none", fields |-> {}]],ids |-> [c1 |-> "o1", c2 |-> "none", d1 |-> "none", v1 |-> "o2", v2 |-> "none"],l |-> 13,live |-> {<<"o1", 1>>, <<"o1", 2>>, <<"o2", 1>>, <<"o2", 2>>, <<"o2", 3>>},lastCall |-> [flags |-> [jit |-> TRUE, large |-> FALSE], op |-> "create_vm", failAt |-> 0, ok |-> TRUE, failed |-> 0, requests |-> <<[kind |-> "heap", name |-> "vmObj"], [kind |-> "map", name |-> "code"], [kind |-> "heap", name |-> "scratchpad"]>>, acquired |-> 3, released |-> 0]]),
    ([obj |-> [o1 |-> [flags |-> [jit |-> FALSE, large |-> FALSE], state |-> "live", op |-> "alloc_cache", fields |-> 1..2], o2 |-> [flags |-> [jit |-> FALSE, large |-> FALSE], state |-> "none", op |-> "none", fields |-> {}], o3 |-> [flags |-> [jit |-> FALSE, large |-> FALSE], state |-> "none", op |-> "none", fields |-> {}], o4 |-> [flags |-> [jit |-> FALSE, large |-> FALSE], state |-> "none", op |-> "none", fields |-> {}]],ids |-> [c1 |-> "o1", c2 |-> "none", d1 |-> "none", v1 |-> "none", v2 |-> "none"],l |-> 14,live |-> {<<"o1", 1>>, <<"o1", 2>>},lastCall |-> [flags |-> [jit |-> TRUE, large |-> FALSE], op |-> "release", released |-> 3, of |-> "create_vm"]]),
    ([obj |-> [o1 |-> [flags |-> [jit |-> FALSE, large |-> FALSE], state |-> "none", op |-> "none", fields |-> {}], o2 |-> [flags |-> [jit |-> FALSE, large |-> FALSE], state |-> "none", op |-> "none", fields |-> {}], o3 |-> [flags |-> [jit |-> FALSE, large |-> FALSE], state |-> "none", op |-> "none", fields |-> {}], o4 |-> [flags |-> [jit |-> FALSE, large |-> FALSE], state |-> "none", op |-> "none", fields |-> {}]],ids |-> [c1 |-> "none", c2 |-> "none", d1 |-> "none", v1 |-> "none", v2 |-> "none"],l |-> 15,live |-> {},lastCall |-> [flags |-> [jit |-> FALSE, large |-> FALSE], op |-> "release", released |-> 2, of |-> "alloc_cache"]]),
    ([obj |-> [o1 |-> [flags |-> [jit |-> FALSE, large |-> FALSE], state |-> "none", op |-> "none", fields |-> {}], o2 |-> [flags |-> [jit |-> FALSE, large |-> FALSE], state |-> "none", op |-> "none", fields |-> {}], o3 |-> [flags |-> [jit |-> FALSE, large |-> FALSE], state |-> "none", op |-> "none", fields |-> {}], o4 |-> [flags |-> [jit |-> FALSE, large |-> FALSE], state |-> "none", op |-> "none", fields |-> {}]],ids |-> [c1 |-> "none", c2 |-> "none", d1 |-> "none", v1 |-> "none", v2 |-> "none"],l |-> 16,live |-> {},lastCall |-> [op |-> "none"]])
    >>
----


=============================================================================

---- CONFIG TraceAlloc_TTrace_1790552894 ----
CONSTANTS
    Objs = { "o1" , "o2" , "o3" , "o4" }
    HugeAvailable = FALSE

INVARIANT
    _inv

CHECK_DEADLOCK
    \* CHECK_DEADLOCK off because of PROPERTY or INVARIANT above.
    FALSE

INIT
    _init

NEXT
    _next

CONSTANT
    _TETrace <- _trace

ALIAS
    _expression
=============================================================================
\* Generated on Sun Sep 27 23:48:19 UTC 2026