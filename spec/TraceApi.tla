------------------------------- MODULE TraceApi -------------------------------
(***************************************************************************)
(* Trace validation for the API state machine (code -> spec).  One trace   *)
(* line = one public call of the real library, recorded by harness/rx_api  *)
(* with: the call's arguments as model ids, the decision the code took     *)
(* (hook events: re-initialised? re-bound?), the VM's internal pointers    *)
(* and flags translated to model ids, the digest and the digest of fresh   *)
(* objects for the same (key, input, version), and the FP control word at  *)
(* entry / after reset / after every program / at exit.                    *)
(* Each line must be the corresponding RxApi action from the current model *)
(* state, with every logged field equal to what the specification says.    *)
(* A Crash / Timeout / Exception line is accepted by no action.            *)
(***************************************************************************)
EXTENDS RxApi, Json, IOUtils, Bitwise

CONSTANT Strict   \* FALSE: only what C03/C13 state (digests, FP word seen by the caller, no crash);
                  \* TRUE: additionally the implementation decisions and internal state the model predicts

TraceLog == ndJsonDeserialize(IOEnv.TRACE)
VARIABLES l,
          rw      \* the word the library installs before the first program (learned from the trace, then fixed)
tvars == <<vars, l, rw>>

Ev == TraceLog[l]
Is(e) == l <= Len(TraceLog) /\ Ev.e = e /\ l' = l + 1

\* --- FP control word (MXCSR) ---------------------------------------------------------------
RcOf(csr) == (csr \div 8192) % 4       \* bits 13-14
Flags(csr) == csr % 64                 \* sticky exception flags, programs may raise them
Masks(csr) == (csr \div 128) % 64      \* exception masks, bits 7-12
\* The word in force when program 1 starts must not depend on the caller: rounding to nearest
\* (specs.md: fprc = 0), no exception unmasked, no flag pending, and the SAME word in every call
\* of the trace whatever the entry state was (0x9FC0 in this implementation; FTZ/DAZ are the
\* implementation's choice since no subnormal arises).
ResetOk(csr) == Strict => (/\ RcOf(csr) = 0 /\ Masks(csr) = 63 /\ Flags(csr) = 0
                           /\ (rw = -1 \/ rw = csr))
LearnRw(csr) == rw' = csr
\* after a program the word differs from the reset word only in rounding mode and sticky flags
ProgsOk(ps, base) == Len(ps) = 8 /\ (Strict => \A i \in 1..8 : ps[i] - Flags(ps[i]) - 8192 * RcOf(ps[i]) = base)

\* VM internals logged after create / set_cache / SetV2 equal the model's
VmMatches(v) == Strict =>
  /\ vm'[v].v2 = Ev.v2
  /\ (IsCompiled(vm'[v].kind) => vm'[v].compV2 = Ev.compV2)
  /\ (IsLight(vm'[v].kind) => /\ vm'[v].cachePtr = Ev.cachePtr
                              /\ vm'[v].memPtr = Ev.memPtr
                              /\ vm'[v].keySeen = Ev.keySeen)

\* the digest equals the fresh-object digest exactly when the specification says the provenance
\* is clean (with the repaired binding rule it always is, so every digest must equal the fresh one)
DigestOk == /\ Ev.fresh # "missing"
            /\ Ev.out = Ev.fresh                                  \* C03: digest of fresh objects for (expected key, input, version)
            /\ (Strict => Clean(last'[1]))
            /\ Ev.canary                                          \* exactly 32 bytes written

TAllocCache == /\ Is("AllocCache") /\ Ev.ok /\ AllocCache(Ev.c, Ev.s, Ev.m)
TInitCache == /\ Is("InitCache") /\ InitCache(Ev.c, Ev.k)
              /\ (Strict => (Ev.reinit = ~InitCacheSkips(Ev.c, Ev.k) /\ Ev.keyAfter = Ev.k))
TReleaseCache == Is("ReleaseCache") /\ ReleaseCache(Ev.c)
TAppMalloc == Is("AppMalloc") /\ AppMalloc(Ev.s)
TAppFree == Is("AppFree") /\ AppFree(Ev.s)
TAllocDataset == Is("AllocDataset") /\ Ev.ok /\ AllocDataset(Ev.d, Ev.m)
TInitDatasetChunk == Is("InitDatasetChunk") /\ InitDatasetChunk(Ev.d, Ev.c, Ev.j)
TReleaseDataset == Is("ReleaseDataset") /\ ReleaseDataset(Ev.d)
TCreateVm == /\ Is("CreateVm") /\ Ev.ok
             /\ IF Ev.kind \in {"IL", "CL"} THEN CreateVmLight(Ev.v, Ev.kind, Ev.c, Ev.v2)
                ELSE CreateVmFull(Ev.v, Ev.kind, Ev.d, Ev.v2)
             /\ VmMatches(Ev.v)
TSetCache == /\ Is("SetCache") /\ SetCache(Ev.v, Ev.c)
             /\ (Strict => Ev.rebind = RebindNeeded(Ev.v, Ev.c))
             /\ VmMatches(Ev.v)
TSetDataset == Is("SetDataset") /\ SetDataset(Ev.v, Ev.d)
TSetV2 == Is("SetV2") /\ SetV2(Ev.v, Ev.on) /\ VmMatches(Ev.v)
TDestroyVm == Is("DestroyVm") /\ DestroyVm(Ev.v)
\* the harness changes the thread's FP word between calls (C13 scenarios); rounding field is tracked
TSetCsr == Is("SetCsr") /\ rc' = RcOf(Ev.csr)
           /\ UNCHANGED <<cache, sOwner, mOwner, mContent, ds, dOwner, vm, bnd, stale, last, rw>>

THash == /\ Is("Hash")
         /\ Ev.csrIn = Ev.csrBefore /\ RcOf(Ev.csrBefore) = rc
         /\ ResetOk(Ev.csrReset) /\ LearnRw(Ev.csrReset)   \* state before program 1 is independent of the caller
         /\ ProgsOk(Ev.csrProg, Ev.csrReset)
         /\ Ev.csrOut = Ev.csrBefore /\ Ev.csrAfter = Ev.csrBefore   \* caller's word restored exactly
         /\ ("cwBefore" \in DOMAIN Ev => Ev.cwAfter = Ev.cwBefore)    \* ... and the x87 control word is as the caller left it
         /\ Hash(Ev.v, Ev.in, RcOf(Ev.csrProg[8]))
         /\ Ev.key = ExpectedKey(Ev.v) /\ Ev.hin = Ev.in
         /\ DigestOk
THashFirst == /\ Is("HashFirst")
              /\ Ev.csrIn = Ev.csrBefore /\ RcOf(Ev.csrBefore) = rc
              /\ HashFirst(Ev.v, Ev.in, RcOf(Ev.csrAfter))
              /\ UNCHANGED rw
THashNext == /\ Is("HashNext")
             /\ Ev.csrIn = Ev.csrBefore /\ RcOf(Ev.csrBefore) = rc
             /\ ResetOk(Ev.csrReset) /\ LearnRw(Ev.csrReset) /\ ProgsOk(Ev.csrProg, Ev.csrReset)
             /\ Ev.csrAfter = Ev.csrProg[8]
             /\ Ev.hin = vm[Ev.v].pend
             /\ HashNext(Ev.v, Ev.in, RcOf(Ev.csrProg[8]))
             /\ Ev.key = ExpectedKey(Ev.v)
             /\ DigestOk
THashLast == /\ Is("HashLast")
             /\ Ev.csrIn = Ev.csrBefore /\ RcOf(Ev.csrBefore) = rc
             /\ ResetOk(Ev.csrReset) /\ LearnRw(Ev.csrReset) /\ ProgsOk(Ev.csrProg, Ev.csrReset)
             /\ Ev.csrAfter = Ev.csrProg[8]
             /\ Ev.hin = vm[Ev.v].pend
             /\ HashLast(Ev.v, RcOf(Ev.csrProg[8]))
             /\ Ev.key = ExpectedKey(Ev.v)
             /\ DigestOk
\* a new scenario starts from the initial state (several executions per TLC run)
TReset == /\ Is("Reset")
          /\ cache' = [c \in Caches |-> NoCache] /\ sOwner' = [s \in SAddrs |-> "free"]
          /\ mOwner' = [m \in MAddrs |-> "free"] /\ mContent' = [m \in MAddrs |-> None]
          /\ ds' = [d \in Datasets |-> NoDs] /\ dOwner' = [a \in DAddrs |-> "free"]
          /\ vm' = [v \in Vms |-> NoVm] /\ bnd' = [v \in Vms |-> None] /\ stale' = [v \in Vms |-> FALSE]
          /\ rc' = 0 /\ last' = <<>> /\ UNCHANGED rw

TraceInit == Init /\ l = 1 /\ rw = -1
TraceNext == \/ ((TAllocCache \/ TInitCache \/ TReleaseCache \/ TAppMalloc \/ TAppFree
                 \/ TAllocDataset \/ TInitDatasetChunk \/ TReleaseDataset
                 \/ TCreateVm \/ TSetCache \/ TSetDataset \/ TSetV2 \/ TDestroyVm) /\ UNCHANGED rw)
             \/ TSetCsr
             \/ THash \/ THashFirst \/ THashNext \/ THashLast \/ TReset
TraceSpec == TraceInit /\ [][TraceNext]_tvars
Accepted == TLCGet("stats").diameter - 1 = Len(TraceLog)
=============================================================================
