SPECIFICATION TraceSpec
CONSTANTS
  Keys = {"K1", "K2"}
  Inputs = {"I1", "I2"}
  Caches = {"c1", "c2"}
  Vms = {"v1", "v2"}
  Datasets = {"d1"}
  SAddrs = {"s1", "s2"}
  MAddrs = {"m1", "m2"}
  DAddrs = {"dm1"}
  LightKinds = {"IL", "CL"}
  FullKinds = {"IF", "CF"}
  NChunks = 2
  IdentityCheck = TRUE
  EnablePipeline = TRUE
  EnableV2 = TRUE
  EnableForeign = TRUE
  EnableRc = TRUE
  Strict = TRUE
INVARIANT HistoryIndependence
INVARIANT NoDanglingState
INVARIANT ReadsExpected
INVARIANT V2InSync
INVARIANT PipelineSp
INVARIANT TypeOK
POSTCONDITION Accepted
CHECK_DEADLOCK FALSE
