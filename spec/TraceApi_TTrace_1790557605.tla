---- MODULE TraceApi_TTrace_1790557605 ----
EXTENDS Sequences, TLCExt, TraceApi, Toolbox, Naturals, TLC

_expression ==
    LET TraceApi_TEExpression == INSTANCE TraceApi_TEExpression
    IN TraceApi_TEExpression!expression
----

_trace ==
    LET TraceApi_TETrace == INSTANCE TraceApi_TETrace
    IN TraceApi_TETrace!trace
----

_inv ==
    ~(
        TLCGet("level") = Len(_TETrace)
        /\
        cache = ([c1 |-> [s |-> "none", m |-> "none", key |-> "none", live |-> FALSE], c2 |-> [s |-> "none", m |-> "none", key |-> "none", live |-> FALSE]])
        /\
        mContent = ([m1 |-> "none", m2 |-> "none"])
        /\
        last = (<<>>)
        /\
        rw = (-1)
        /\
        l = (2)
        /\
        sOwner = ([s1 |-> "free", s2 |-> "free"])
        /\
        ds = ([d1 |-> [m |-> "none", live |-> FALSE, chunk |-> <<"none", "none">>]])
        /\
        rc = (0)
        /\
        stale = ([v1 |-> FALSE, v2 |-> FALSE])
        /\
        vm = ([v1 |-> [v2 |-> FALSE, kind |-> "none", compV2 |-> FALSE, cachePtr |-> "none", memPtr |-> "none", keySeen |-> "none", pend |-> "none", live |-> FALSE, ssKey |-> "none", dsPtr |-> "none", dsMem |-> "none", sp |-> "none"], v2 |-> [v2 |-> FALSE, kind |-> "none", compV2 |-> FALSE, cachePtr |-> "none", memPtr |-> "none", keySeen |-> "none", pend |-> "none", live |-> FALSE, ssKey |-> "none", dsPtr |-> "none", dsMem |-> "none", sp |-> "none"]])
        /\
        mOwner = ([m1 |-> "free", m2 |-> "free"])
        /\
        bnd = ([v1 |-> "none", v2 |-> "none"])
        /\
        dOwner = ([dm1 |-> "free"])
    )
----

_init ==
    /\ bnd = _TETrace[1].bnd
    /\ dOwner = _TETrace[1].dOwner
    /\ l = _TETrace[1].l
    /\ sOwner = _TETrace[1].sOwner
    /\ ds = _TETrace[1].ds
    /\ rc = _TETrace[1].rc
    /\ rw = _TETrace[1].rw
    /\ last = _TETrace[1].last
    /\ mContent = _TETrace[1].mContent
    /\ stale = _TETrace[1].stale
    /\ vm = _TETrace[1].vm
    /\ mOwner = _TETrace[1].mOwner
    /\ cache = _TETrace[1].cache
----

_next ==
    /\ \E i,j \in DOMAIN _TETrace:
        /\ \/ /\ j = i + 1
              /\ i = TLCGet("level")
        /\ bnd  = _TETrace[i].bnd
        /\ bnd' = _TETrace[j].bnd
        /\ dOwner  = _TETrace[i].dOwner
        /\ dOwner' = _TETrace[j].dOwner
        /\ l  = _TETrace[i].l
        /\ l' = _TETrace[j].l
        /\ sOwner  = _TETrace[i].sOwner
        /\ sOwner' = _TETrace[j].sOwner
        /\ ds  = _TETrace[i].ds
        /\ ds' = _TETrace[j].ds
        /\ rc  = _TETrace[i].rc
        /\ rc' = _TETrace[j].rc
        /\ rw  = _TETrace[i].rw
        /\ rw' = _TETrace[j].rw
        /\ last  = _TETrace[i].last
        /\ last' = _TETrace[j].last
        /\ mContent  = _TETrace[i].mContent
        /\ mContent' = _TETrace[j].mContent
        /\ stale  = _TETrace[i].stale
        /\ stale' = _TETrace[j].stale
        /\ vm  = _TETrace[i].vm
        /\ vm' = _TETrace[j].vm
        /\ mOwner  = _TETrace[i].mOwner
        /\ mOwner' = _TETrace[j].mOwner
        /\ cache  = _TETrace[i].cache
        /\ cache' = _TETrace[j].cache

\* Uncomment the ASSUME below to write the states of the error trace
\* to the given file in Json format. Note that you can pass any tuple
\* to `JsonSerialize`. For example, a sub-sequence of _TETrace.
    \* ASSUME
    \*     LET J == INSTANCE Json
    \*         IN J!JsonSerialize("TraceApi_TTrace_1790557605.json", _TETrace)

=============================================================================

 Note that you can extract this module `TraceApi_TEExpression`
  to a dedicated file to reuse `expression` (the module in the 
  dedicated `TraceApi_TEExpression.tla` file takes precedence 
  over the module `TraceApi_TEExpression` below).

---- MODULE TraceApi_TEExpression ----
EXTENDS Sequences, TLCExt, TraceApi, Toolbox, Naturals, TLC

expression == 
    [
        \* To hide variables of the `TraceApi` spec from the error trace,
        \* remove the variables below.  The trace will be written in the order
        \* of the fields of this record.
        bnd |-> bnd
        ,dOwner |-> dOwner
        ,l |-> l
        ,sOwner |-> sOwner
        ,ds |-> ds
        ,rc |-> rc
        ,rw |-> rw
        ,last |-> last
        ,mContent |-> mContent
        ,stale |-> stale
        ,vm |-> vm
        ,mOwner |-> mOwner
        ,cache |-> cache
        
        \* Put additional constant-, state-, and action-level expressions here:
        \* ,_stateNumber |-> _TEPosition
        \* ,_bndUnchanged |-> bnd = bnd'
        
        \* Format the `bnd` variable as Json value.
        \* ,_bndJson |->
        \*     LET J == INSTANCE Json
        \*     IN J!ToJson(bnd)
        
        \* Lastly, you may build expressions over arbitrary sets of states by
        \* leveraging the _TETrace operator.  For example, this is how to
        \* count the number of times a spec variable changed up to the current
        \* state in the trace.
        \* ,_bndModCount |->
        \*     LET F[s \in DOMAIN _TETrace] ==
        \*         IF s = 1 THEN 0
        \*         ELSE IF _TETrace[s].bnd # _TETrace[s-1].bnd
        \*             THEN 1 + F[s-1] ELSE F[s-1]
        \*     IN F[_TEPosition - 1]
    ]

=============================================================================



Parsing and semantic processing can take forever if the trace below is long.
 In this case, it is advised to uncomment the module below to deserialize the
 trace from a generated binary file.

\*
\*---- MODULE TraceApi_TETrace ----
\*EXTENDS IOUtils, TraceApi, TLC
\*
\*trace == IODeserialize("TraceApi_TTrace_1790557605.bin", TRUE)
\*
\*=============================================================================
\*

---- MODULE TraceApi_TETrace ----
EXTENDS TraceApi, TLC

trace == 
    <<
    ([cache |-> [c1 |-> [s |-> "none", m |-> "none", key |-> "none", live |-> FALSE], c2 |-> [s |-> "none", m |-> "none", key |-> "none", live |-> FALSE]],mContent |-> [m1 |-> "none", m2 |-> "none"],last |-> <<>>,rw |-> -1,l |-> 1,sOwner |-> [s1 |-> "free", s2 |-> "free"],ds |-> [d1 |-> [m |-> "none", live |-> FALSE, chunk |-> <<"none", "none">>]],rc |-> 0,stale |-> [v1 |-> FALSE, v2 |-> FALSE],vm |-> [v1 |-> [v2 |-> FALSE, kind |-> "none", compV2 |-> FALSE, cachePtr |-> "none", memPtr |-> "none", keySeen |-> "none", pend |-> "none", live |-> FALSE, ssKey |-> "none", dsPtr |-> "none", dsMem |-> "none", sp |-> "none"], v2 |-> [v2 |-> FALSE, kind |-> "none", compV2 |-> FALSE, cachePtr |-> "none", memPtr |-> "none", keySeen |-> "none", pend |-> "none", live |-> FALSE, ssKey |-> "none", dsPtr |-> "none", dsMem |-> "none", sp |-> "none"]],mOwner |-> [m1 |-> "free", m2 |-> "free"],bnd |-> [v1 |-> "none", v2 |-> "none"],dOwner |-> [dm1 |-> "free"]]),
    ([cache |-> [c1 |-> [s |-> "none", m |-> "none", key |-> "none", live |-> FALSE], c2 |-> [s |-> "none", m |-> "none", key |-> "none", live |-> FALSE]],mContent |-> [m1 |-> "none", m2 |-> "none"],last |-> <<>>,rw |-> -1,l |-> 2,sOwner |-> [s1 |-> "free", s2 |-> "free"],ds |-> [d1 |-> [m |-> "none", live |-> FALSE, chunk |-> <<"none", "none">>]],rc |-> 0,stale |-> [v1 |-> FALSE, v2 |-> FALSE],vm |-> [v1 |-> [v2 |-> FALSE, kind |-> "none", compV2 |-> FALSE, cachePtr |-> "none", memPtr |-> "none", keySeen |-> "none", pend |-> "none", live |-> FALSE, ssKey |-> "none", dsPtr |-> "none", dsMem |-> "none", sp |-> "none"], v2 |-> [v2 |-> FALSE, kind |-> "none", compV2 |-> FALSE, cachePtr |-> "none", memPtr |-> "none", keySeen |-> "none", pend |-> "none", live |-> FALSE, ssKey |-> "none", dsPtr |-> "none", dsMem |-> "none", sp |-> "none"]],mOwner |-> [m1 |-> "free", m2 |-> "free"],bnd |-> [v1 |-> "none", v2 |-> "none"],dOwner |-> [dm1 |-> "free"]])
    >>
----


=============================================================================

---- CONFIG TraceApi_TTrace_1790557605 ----
CONSTANTS
    Keys = { "K1" , "K2" }
    Inputs = { "I1" , "I2" }
    Caches = { "c1" , "c2" }
    Vms = { "v1" , "v2" }
    Datasets = { "d1" }
    SAddrs = { "s1" , "s2" }
    MAddrs = { "m1" , "m2" }
    DAddrs = { "dm1" }
    LightKinds = { "IL" , "CL" }
    FullKinds = { "IF" , "CF" }
    NChunks = 2
    IdentityCheck = TRUE
    EnablePipeline = TRUE
    EnableV2 = TRUE
    EnableForeign = TRUE
    EnableRc = TRUE
    Strict = FALSE

INVARIANT
    _inv

CHECK_DEADLOCK
    \* CHECK_DEADLOCK off because of PROPERTY or INVARIANT above.
    FALSE

INIT
    _init

NEXT
    _next

CONSTANT
    _TETrace <- _trace

ALIAS
    _expression
=============================================================================
\* Generated on Mon Sep 28 01:06:50 UTC 2026