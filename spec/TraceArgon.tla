------------------------------- MODULE TraceArgon -------------------------------
(***************************************************************************)
(* Trace validation for C10.                                               *)
(*  argon   a complete reduced instance (m blocks, t passes) filled by one *)
(*          of the three implementations: the whole memory must equal      *)
(*          Argon2!Fill for the recorded password and salt.                *)
(*  ablock  one block of the full-size fill with its inputs: the reference *)
(*          index must be Argon2!IndexAlpha of the previous block's first  *)
(*          word, the new block must be Argon2!FillBlock(prev, ref, old).  *)
(*  same    measured number of differing blocks between implementations /  *)
(*          between the public cache initialisation and the manual fill /  *)
(*          after re-keying: must be 0.                                    *)
(***************************************************************************)
EXTENDS Argon2, Json, IOUtils
\* the parsed recording is kept in a variable: TLC re-evaluates a definition that calls a Java-backed operator at every use
VARIABLES l, log
Ev == log[l]
Blk(limbs) == LimbsToWords(limbs)
\* (TLC does not cache LET-bound values referenced inside quantifiers / lambdas: expensive values are
\* threaded through fold accumulators and compared as whole values)
FlatMem(memv, m) == FoldLeft(LAMBDA acc, b : <<acc[1], acc[2] \o acc[1][b]>>, <<memv, <<>>>>, Range0(m))[2]
ArgonOk(ev) == FlatMem(Fill(ev.key, ev.salt, ev.m, ev.t), ev.m) = TLCEval(LimbsToWords(ev.mem))
ABlockOk(ev) == LET prev == TLCEval(Blk(ev.prev))
                    segLen == ev.m \div 4
                IN  /\ ev.prevIdx = (IF ev.slice * segLen + ev.index = 0 THEN ev.m - 1 ELSE ev.slice * segLen + ev.index - 1)
                    /\ ev.refIdx = IndexAlpha(ev.pass, ev.slice, ev.index, <<prev[1][1], prev[1][2]>>, segLen, ev.m)
                    /\ TLCEval(Blk(ev.new)) = FillBlock(prev, TLCEval(Blk(ev.ref)), TLCEval(Blk(ev.old)), ev.pass > 0)
EventOk(ev) == CASE ev.e = "argon" -> ArgonOk(ev) [] ev.e = "ablock" -> ABlockOk(ev) [] ev.e = "same" -> ev.diff = 0 [] OTHER -> FALSE
Init == l = 1 /\ log = ndJsonDeserialize(IOEnv.TRACE)
Next == l <= Len(log) /\ EventOk(Ev) /\ l' = l + 1 /\ UNCHANGED log
Spec == Init /\ [][Next]_<<l, log>>
Accepted == TLCGet("stats").diameter - 1 = Len(ndJsonDeserialize(IOEnv.TRACE))
=============================================================================
