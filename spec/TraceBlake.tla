------------------------------ MODULE TraceBlake ------------------------------
(***************************************************************************)
(* Validates calls recorded from the real Blake2b code (one-shot,          *)
(* streaming with arbitrary chunking, blake2b_long, commitment, invalid    *)
(* parameters) against RFC 7693 as transcribed in Blake2b.tla and against  *)
(* the streaming machine BlakeStream instantiated with the real block size *)
(* and the real compression function.  One trace line = one call (or one   *)
(* streaming session); a line is consumed only if the specification        *)
(* reproduces every recorded return code and every output byte.            *)
(***************************************************************************)
EXTENDS Blake2b, Json, IOUtils

ConcF(h, b, t, l) == Compress(h, BlockWords(b), <<WFromInt(t[1]), WFromInt(t[2])>>, l)
ConcH0(o, k) == InitH(o, k)
S == INSTANCE BlakeStream WITH B <- 128, OutMax <- 64, KeyMax <- 64, TMod <- 1073741824,
                               F <- ConcF, H0 <- ConcH0

TraceLog == ndJsonDeserialize(IOEnv.TRACE)

VARIABLE l
Canary(n) == [i \in 1..n |-> 170]
\* expected content of a canary-filled output buffer of length cap after writing d
Written(d, cap) == d \o Canary(cap - Len(d))
Concat(chunks) == FoldLeft(LAMBDA a, c : a \o c, <<>>, chunks)

OneShotOk(ev) ==
  LET valid == /\ ~(ev.inNull /\ ev.inlen > 0)
               /\ ~ev.outNull /\ ev.outlen \in 1..64
               /\ ~(ev.keyNull /\ ev.keylen > 0) /\ ev.keylen <= 64
  IN  IF valid THEN /\ ev.rc = 0
                    /\ ev.out = Written(Hash(ev.msg, ev.outlen, ev.key), Len(ev.out))
      ELSE /\ ev.rc = -1
           /\ ev.out = Canary(Len(ev.out))

StreamOk(ev) ==
  LET r == S!Session(ev.outlen, ev.key, ev.keyed, ev.keyNull, ev.chunks, ev.reqlen)
      rcs == r[1]
      ok == rcs[Len(rcs)] = 0
      \* optional misuse after final(): update(1 byte) then final(64) on the resulting state
      u == S!Update(r[3], <<1>>)
      post == <<u[1], S!Final(u[2], 64)[1]>>
  IN  /\ ev.rcs = rcs
      /\ (Len(ev.post) > 0 => ev.post = post)
      /\ IF ok THEN LET d == SubSeq(WordsToBytes(r[2]), 1, ev.outlen)
                    IN  /\ ev.out = Written(d, Len(ev.out))
                        \* chunking is irrelevant: same digest as the RFC one-shot definition
                        /\ d = Hash(Concat(ev.chunks), ev.outlen, IF ev.keyed THEN ev.key ELSE <<>>)
         ELSE ev.out = Canary(Len(ev.out))

LongOk(ev) == ev.out = HashLong(ev.msg, ev.outlen)
CommitOk(ev) == ev.out = Written(Commitment(ev.input, ev.hash), Len(ev.out))

\* a message of lenHigh * 2^32 + lenLow zero bytes (not recomputable here: 2^25 compressions): the one-shot function and the streamed
\* session are the same function of the message (BlakeStream: one-shot = session with one chunk), and neither is the digest of the
\* first lenLow bytes, which is what a length truncated to 32 bits would give; lenLow zero bytes ARE recomputed
BigOk(ev) == /\ ev.rc1 = 0 /\ ev.rc2 = 0 /\ ev.lenHigh >= 1
             /\ ev.oneshot = ev.streamed
             /\ ev.truncated = Hash([i \in 1..ev.lenLow |-> 0], 32, <<>>)
             /\ ev.oneshot # ev.truncated
             /\ ("commit" \in DOMAIN ev => ev.commit = ev.commitStreamed)      \* the commitment of the long input = Hash256(input || hash), streamed

\* a digest or key length of outHigh * 2^32 + outLow with a non-zero high word is out of range whatever its low part is: the one-shot
\* call and init / init_key fail and nothing is written
WideLenOk(ev) == /\ (ev.outHigh > 0 \/ ev.keyHigh > 0)
                 /\ ev.rc = -1 /\ ev.rcInit = -1 /\ ev.out = Canary(Len(ev.out))

EventOk(ev) ==
  CASE ev.e = "oneshot" -> OneShotOk(ev)
    [] ev.e = "stream"  -> StreamOk(ev)
    [] ev.e = "long"    -> LongOk(ev)
    [] ev.e = "commit"  -> CommitOk(ev)
    [] ev.e = "big"     -> BigOk(ev)
    [] ev.e = "widelen" -> WideLenOk(ev)
    [] OTHER -> FALSE

Init == l = 1
Next == /\ l <= Len(TraceLog)
        /\ EventOk(TraceLog[l])
        /\ l' = l + 1
Spec == Init /\ [][Next]_l
Accepted == TLCGet("stats").diameter - 1 = Len(TraceLog)
=============================================================================
