SPECIFICATION TSpec
CONSTANTS
  Keys = {"K1"}
  Inputs = {"I1"}
POSTCONDITION Accepted
CHECK_DEADLOCK FALSE
