-------------------------------- MODULE TraceCfg --------------------------------
(***************************************************************************)
(* Trace validation for C01 / C17: `vm` lines record a VM creation (flag   *)
(* word and the dynamic class actually instantiated), `hash` lines record  *)
(* a digest with the configuration that produced it and the digest of the  *)
(* reference configuration (interpreter, light mode, software AES,         *)
(* reference Argon2, default build) for the same (key, input, version).    *)
(* The specification's digest function has no configuration argument, so   *)
(* every digest must equal the first one seen for its (key, input,         *)
(* version) - history variable `seen` - and the reference digest.          *)
(***************************************************************************)
EXTENDS RxCfg, Json, IOUtils

TraceLog == ndJsonDeserialize(IOEnv.TRACE)
VARIABLES l, seen
Ev == TraceLog[l]

VmOk(ev) == LET d == Dispatch(ev.flags % 128)
            IN  /\ ev.ok
                /\ ev.clsCompiled = d.compiled /\ ev.clsLight = d.light /\ ev.clsSoftAes = d.softAes
                /\ ev.clsSecure = d.secure /\ ev.clsLarge = d.large
                /\ ev.v2 = Has(ev.flags, FV2)
Id(ev) == <<ev.key, ev.input, ev.v2>>
HashOk(ev) == /\ ("ref" \in DOMAIN ev => (ev.ref # "missing" /\ ev.out = ev.ref))
              /\ (Id(ev) \in DOMAIN seen => seen[Id(ev)] = ev.out)
              \* single-call hashing leaves the caller's rounding direction as it was (C13 / C17, fenv form)
              /\ ("rcBefore" \in DOMAIN ev /\ ev.rcBefore >= 0 => ev.rcAfter = ev.rcBefore)
              \* ... and, where the caller's environment was set through MXCSR, the whole control/status word
              /\ ("csrBefore" \in DOMAIN ev => ev.csrAfter = ev.csrBefore)
\* intermediate and auxiliary results that must not depend on the build either: register file after
\* each program of a hash, dataset items
AuxId(ev) == IF ev.e = "prog" THEN <<"prog", ev.key, ev.input, ev.v2, ev.idx>> ELSE <<"item", ev.key, ev.hi, ev.lo>>
AuxVal(ev) == IF ev.e = "prog" THEN ev.regs ELSE ev.bytes
AuxOk(ev) == AuxId(ev) \in DOMAIN seen => seen[AuxId(ev)] = AuxVal(ev)

TInit == l = 1 /\ seen = <<>> /\ done = {}
TVm == l <= Len(TraceLog) /\ Ev.e = "vm" /\ VmOk(Ev) /\ l' = l + 1 /\ UNCHANGED <<seen, done>>
THash == /\ l <= Len(TraceLog) /\ Ev.e = "hash" /\ HashOk(Ev) /\ l' = l + 1
         /\ seen' = [x \in DOMAIN seen \cup {Id(Ev)} |-> IF x = Id(Ev) THEN Ev.out ELSE seen[x]]
         /\ UNCHANGED done
TAux == /\ l <= Len(TraceLog) /\ Ev.e \in {"prog", "item"} /\ AuxOk(Ev) /\ l' = l + 1
        /\ seen' = [x \in DOMAIN seen \cup {AuxId(Ev)} |-> IF x = AuxId(Ev) THEN AuxVal(Ev) ELSE seen[x]]
        /\ UNCHANGED done
TSpec == TInit /\ [][TVm \/ THash \/ TAux]_<<l, seen, done>>
Accepted == TLCGet("stats").diameter - 1 = Len(TraceLog)
=============================================================================
