SPECIFICATION TSpec
CONSTANTS
  Threads = {"t1"}
  NChunks = 1
  AesProbeGlobal = FALSE
POSTCONDITION Accepted
CHECK_DEADLOCK FALSE
