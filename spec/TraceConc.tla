------------------------------- MODULE TraceConc -------------------------------
(***************************************************************************)
(* Trace validation for C14; three kinds of recordings of the real code:   *)
(*  call    one public call executed alone with the library linked as a    *)
(*          shared object: `gw` = names of the library globals whose bytes *)
(*          changed during the call, `shared` = whether a write-protected  *)
(*          shared object was written (the harness would have crashed).    *)
(*          The observed writes must be inside RxConc!Footprint.           *)
(*  thread  results of a thread's script run concurrently with others over *)
(*          shared data (ThreadSanitizer build) next to the same script    *)
(*          run sequentially: must be equal.                               *)
(*  dsinit  concurrent initialisation of disjoint abutting ranges: no item *)
(*          differs from the light-mode item, nothing outside is written.  *)
(*  race    a ThreadSanitizer data-race report: no action accepts it.      *)
(***************************************************************************)
EXTENDS RxConc, Json, IOUtils

TraceLog == ndJsonDeserialize(IOEnv.TRACE)
VARIABLE l
Ev == TraceLog[l]

ToSet(s) == {s[i] : i \in 1..Len(s)}
\* globals the footprint table lets this call write
AllowedGlobals(call) == {x.loc[2] : x \in {y \in Footprint("t1", call) : y.w /\ y.loc[1] = "global"}}

CallOk(ev) ==
  LET call == IF ev.op = "create_vm" THEN [op |-> "create_vm", light |-> ev.light, hardAes |-> ev.hardAes]
              ELSE IF ev.op = "hash" THEN [op |-> "hash", light |-> ev.light]
              ELSE IF ev.op = "init_dataset" THEN [op |-> "init_dataset", j |-> 1]
              ELSE [op |-> ev.op]
  IN  /\ Footprint("t1", call) # {}                  \* the table knows this call
      /\ ToSet(ev.gw) \subseteq AllowedGlobals(call)
ThreadOk(ev) == ev.par = ev.seq /\ Len(ev.par) > 0 /\ \A i \in 1..Len(ev.par) : ev.par[i] # "null"
DsInitOk(ev) == ev.mismatch = 0 /\ ev.outside = 0

EventOk(ev) == CASE ev.e = "call" -> CallOk(ev)
                 [] ev.e = "thread" -> ThreadOk(ev)
                 [] ev.e = "dsinit" -> DsInitOk(ev)
                 [] OTHER -> FALSE                   \* race, Crash, Timeout, ...

TInit == l = 1 /\ script = [t \in Threads |-> <<>>] /\ pc = [t \in Threads |-> 1] /\ busy = [t \in Threads |-> FALSE]
TNext == l <= Len(TraceLog) /\ EventOk(Ev) /\ l' = l + 1 /\ UNCHANGED vars
TSpec == TInit /\ [][TNext]_<<vars, l>>
Accepted == TLCGet("stats").diameter - 1 = Len(TraceLog)
=============================================================================
