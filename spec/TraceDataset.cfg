SPECIFICATION TSpec
CONSTANTS
  N = 1
  Threads = {"t1"}
POSTCONDITION Accepted
CHECK_DEADLOCK FALSE
