------------------------------ MODULE TraceDataset ------------------------------
(***************************************************************************)
(* Trace validation for C08: recordings of real randomx_init_dataset calls *)
(* on a pattern-filled dataset.  `init` lines carry the inner calls the    *)
(* public function made (observed through a trampoline installed in the    *)
(* cache's initialiser function pointer), the set of items that changed    *)
(* (lowest, highest, number), how many requested items differ from the     *)
(* light-mode item and how many were left untouched.  The specification    *)
(* recomputes the inner calls with Dataset!InnerCalls and demands that     *)
(* exactly the requested items changed, all equal to light mode.           *)
(* `multi` lines: a window initialised by several threads over a random    *)
(* partition; `item` lines are validated by TraceSs (item = specification).*)
(***************************************************************************)
EXTENDS Dataset, Json, IOUtils

CONSTANT StrictInner   \* TRUE: also require the recorded inner calls to be exactly Dataset!InnerCalls (model conformance)

TraceLog == ndJsonDeserialize(IOEnv.TRACE)
VARIABLE l
Ev == TraceLog[l]

InitOk(ev) ==
  LET want == InnerCalls(ev.start, ev.count)
  IN  /\ ev.start + ev.count <= ev.total
      /\ (StrictInner => /\ Len(ev.inner) = Len(want)
                         /\ \A i \in 1..Len(want) : ev.inner[i] = <<want[i].s, want[i].e, want[i].dest>>)
      \* C08 proper: exactly the requested items changed, every one equals the light-mode item
      /\ IF ev.count = 0 THEN ev.changed = <<>>
         ELSE ev.changed = <<ev.start, ev.start + ev.count - 1, ev.count>>
      /\ ev.bad = 0 /\ ev.missing = 0
MultiOk(ev) == ev.mismatch = 0 /\ ev.outside = 0 /\ ev.missing = 0

\* `canary`: the bytes in front of the dataset extent after all calls so far (the page behind the extent is inaccessible:
\* a write there ends the recording with a Crash line, which is no event of this specification)
EventOk(ev) == CASE ev.e = "init" -> InitOk(ev) [] ev.e = "multi" -> MultiOk(ev) [] ev.e = "canary" -> ev.overwritten = 0
                   [] ev.e = "rekey" -> TRUE         \* marker: the cache object was re-keyed; the init lines that follow are judged like all others
                   [] OTHER -> FALSE
TInit == l = 1 /\ ds = <<>> /\ req = <<>> /\ todo = <<>> /\ writers = <<>>
TNext == l <= Len(TraceLog) /\ EventOk(Ev) /\ l' = l + 1 /\ UNCHANGED vars
TSpec == TInit /\ [][TNext]_<<vars, l>>
Accepted == TLCGet("stats").diameter - 1 = Len(TraceLog)
=============================================================================
