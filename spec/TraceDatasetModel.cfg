SPECIFICATION TSpec
CONSTANTS
  N = 1
  Threads = {"t1"}
  StrictInner = TRUE
POSTCONDITION Accepted
CHECK_DEADLOCK FALSE
