-------------------------------- MODULE TraceHash --------------------------------
(***************************************************************************)
(* Trace validation for C02: the intermediate values of real hash          *)
(* computations (interpreter, light mode) recorded by harness/rx_hash are   *)
(* checked arrow by arrow against RxHash.  State carried between lines:    *)
(* the input's seed, the current AesGenerator4R seed, the current program, *)
(* the last register file, the fingerprint.                                *)
(***************************************************************************)
EXTENDS RxHash, Json, IOUtils

VARIABLES l, log, S, gseed, prog, lastReg, fpr, v2
vars == <<l, log, S, gseed, prog, lastReg, fpr, v2>>
Ev == log[l]
B(x) == LimbsToBytes(x)
Adv == l' = l + 1 /\ UNCHANGED log

TBegin == /\ Ev.e = "h_begin" /\ S' = TLCEval(SeedOf(Ev.input)) /\ v2' = Ev.v2
          /\ gseed' = <<>> /\ prog' = <<>> /\ lastReg' = <<>> /\ fpr' = <<>> /\ Adv
\* the first arrow alone, for inputs of boundary lengths
TSeed == /\ Ev.e = "h_seed" /\ FillFirst(SeedOf(Ev.input), B(Ev.block)) /\ Adv /\ UNCHANGED <<S, gseed, prog, lastReg, fpr, v2>>
TFill0 == /\ Ev.e = "h_fill0" /\ FillFirst(S, B(Ev.block)) /\ Adv /\ UNCHANGED <<S, gseed, prog, lastReg, fpr, v2>>
TFill == /\ Ev.e = "h_fill" /\ FillLink(B(Ev.prev), B(Ev.block)) /\ Adv /\ UNCHANGED <<S, gseed, prog, lastReg, fpr, v2>>
\* the generator state handed to AesGenerator4R is the last scratchpad block
TFillEnd == /\ Ev.e = "h_fillend" /\ Ev.state = Ev.last
            /\ gseed' = TLCEval(B(Ev.state)) /\ Adv /\ UNCHANGED <<S, prog, lastReg, fpr, v2>>
\* program i is generated from the current seed; it becomes the current program
TProg == /\ Ev.e = "h_prog"
         /\ LET bytes == TLCEval(B(Ev.bytes)) IN
            /\ bytes = ProgramBytes(gseed)
            /\ prog' = [q |-> TLCEval(ConfigWords(bytes)), dec |-> TLCEval(DecodeProgram(InstrWords(bytes, v2))), i |-> Ev.i]
            \* the decoded program the interpreter runs has the specified branch targets
            /\ Ev.targets = FoldLeft(LAMBDA acc, d : Append(acc, IF d.k = "CBRANCH" THEN d.target ELSE -2), <<>>, prog'.dec)
         /\ Adv /\ UNCHANGED <<S, gseed, lastReg, fpr, v2>>
\* one loop iteration of the current program
\* scratchpad content before the iteration, on the 4 KiB pages the real iteration touched (reading any other
\* address is an evaluation error, i.e. the line is rejected)
PageMem(pages) ==
  LET pset == {pages[k][1] : k \in 1..Len(pages)}
      pmap == [pg \in pset |-> (CHOOSE k \in 1..Len(pages) : pages[k][1] = pg)]
  IN  [a \in 0..2097151 |-> LET pg == a - (a % 4096)
                                j == (a % 4096) \div 8
                                ls == pages[pmap[pg]][2]
                            IN  <<ls[4 * j + 1], ls[4 * j + 2], ls[4 * j + 3], ls[4 * j + 4]>>]
IterOk(ev) ==
  LET cfg == ConfigOf(prog.q)
      base == PageMem(ev.pages)
      st0 == [r |-> ev.r, f |-> [i \in 1..4 |-> <<W0, W0>>], e |-> [i \in 1..4 |-> <<W0, W0>>], a |-> ev.a, fprc |-> ev.fprc, emask |-> cfg.emask]
      m0 == [st |-> st0, ma |-> ev.ma, mx |-> ev.mx,
             sa0 |-> IF ev.ic = 0 THEN ev.mx ELSE <<0, 0>>, sa1 |-> IF ev.ic = 0 THEN ev.ma ELSE <<0, 0>>,
             sp |-> <<>>, count |-> 0, items |-> <<>>]
      ditem == [n \in {ev.item} |-> ev.itemWords]
      m1 == Iteration(m0, cfg, prog.dec, base, ditem, v2)
      wr == {<<a, m1.sp[a]>> : a \in {x \in DOMAIN m1.sp : m1.sp[x] # base[x]}}
  IN  /\ ev.i = prog.i
      /\ cfg.a = ev.a                                       \* group A registers are those of the configuration
      /\ m1.items = <<ev.item>>                              \* the dataset item that was read is the specified one
      /\ m1.st.r = ev.r2 /\ m1.st.f = ev.f2 /\ m1.st.e = ev.e2 /\ m1.st.fprc = ev.fprc2
      /\ m1.ma = ev.ma2 /\ m1.mx = ev.mx2
      /\ wr = {<<w[1], w[2]>> : w \in {ev.writes[k] : k \in 1..Len(ev.writes)}}
      /\ (ev.ic = 0 => (ev.r = [i \in 1..8 |-> W0] /\ ev.ma = cfg.ma /\ ev.mx = cfg.mx /\ (prog.i = 1 => ev.fprc = 0)))
TIter == /\ Ev.e = "h_iter" /\ IterOk(Ev) /\ Adv /\ UNCHANGED <<S, gseed, prog, lastReg, fpr, v2>>
\* register file after program i; it seeds the next program
TReg == /\ Ev.e = "h_reg" /\ Ev.i = prog.i
        /\ lastReg' = TLCEval(B(Ev.reg))
        /\ gseed' = TLCEval(Reseed(B(Ev.reg)))
        /\ Adv /\ UNCHANGED <<S, prog, fpr, v2>>
TFp == /\ Ev.e = "h_fp" /\ FingerprintLink(B(Ev.hprev), B(Ev.block), B(Ev.hnext))
       /\ (Ev.k = 1 => B(Ev.hprev) = FingerprintOfNothing)
       /\ (Ev.k = ScratchpadBlocks => B(Ev.hnext) = fpr)
       /\ Adv /\ UNCHANGED <<S, gseed, prog, lastReg, fpr, v2>>
\* final: r, f, e of the last register file, a replaced by the fingerprint; R = Hash256
TFinal == /\ Ev.e = "h_final"
          /\ SubSeq(B(Ev.reg), 1, 192) = SubSeq(lastReg, 1, 192)
          /\ Ev.out = Result(B(Ev.reg))
          /\ fpr' = TLCEval(SubSeq(B(Ev.reg), 193, 256))
          /\ Adv /\ UNCHANGED <<S, gseed, prog, lastReg, v2>>
\* the fingerprint put into the register file is the fingerprint of the whole scratchpad
TFpFull == /\ Ev.e = "h_fpfull" /\ B(Ev.h) = fpr
           /\ ("sp" \in DOMAIN Ev => B(Ev.h) = Hash1R(B(Ev.sp)))
           /\ Adv /\ UNCHANGED <<S, gseed, prog, lastReg, fpr, v2>>

Init == l = 1 /\ log = ndJsonDeserialize(IOEnv.TRACE) /\ S = <<>> /\ gseed = <<>> /\ prog = <<>> /\ lastReg = <<>> /\ fpr = <<>> /\ v2 = FALSE
Next == l <= Len(log) /\ (TBegin \/ TSeed \/ TFill0 \/ TFill \/ TFillEnd \/ TProg \/ TIter \/ TReg \/ TFp \/ TFinal \/ TFpFull)
Spec == Init /\ [][Next]_vars
Accepted == TLCGet("stats").diameter - 1 = Len(ndJsonDeserialize(IOEnv.TRACE))
=============================================================================
