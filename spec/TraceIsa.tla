------------------------------- MODULE TraceIsa -------------------------------
(***************************************************************************)
(* Trace validation for C05 / C18 (and C07's constants, C17 when the       *)
(* recording comes from the portable build).                               *)
(*  step  one instruction word decoded and executed by the real            *)
(*        BytecodeMachine from a recorded machine state over a pattern     *)
(*        scratchpad (qword k holds (k+1)*K xor pat): the specification    *)
(*        decodes and executes the same word with RxIsa and every recorded *)
(*        field must agree - decoded kind, immediate, address mask, branch *)
(*        target and condition position, the whole last-writer table,      *)
(*        all integer and FP registers, rounding mode, next pc, and the    *)
(*        set of scratchpad qwords that changed.  Invariants NoNaN /       *)
(*        NoSubnormal / group ranges are evaluated on every FP result.     *)
(*  fp    one IEEE operation executed by the host FPU in a given rounding  *)
(*        mode: ties RxPrim!FpOp (trusted Java evaluation) to the hardware *)
(*  rcp   reciprocal routines (portable and assembly) for a divisor        *)
(***************************************************************************)
EXTENDS RxIsa, Json, IOUtils

TraceLog == ndJsonDeserialize(IOEnv.TRACE)
VARIABLE l
Ev == TraceLog[l]

PatK == <<31765, 32586, 31161, 40503>>      \* 0x9E3779B97F4A7C15
PatMem(seed) == [addr \in 0..2097151 |-> WXor(WMul(WFromInt((addr \div 8) + 1), PatK), seed)]

StateOf(ev) == [r |-> ev.r, f |-> ev.f, e |-> ev.e_, a |-> ev.a, fprc |-> ev.fprc, emask |-> ev.emask]

ImmChecked(d, ev) ==
  CASE d.k = "IADD_RS" \/ d.k \in MemReadKinds \/ d.k \in FpMemKinds \/ d.k = "ISTORE" \/ d.k = "CBRANCH" \/ d.k = "CFROUND" -> ev.imm = d.imm
    [] d.k \in {"ISUB_R", "IMUL_R", "IXOR_R"} /\ d.src = d.dst -> ev.imm = d.imm
    [] d.k = "IMUL_RCP" /\ ~d.nop -> ev.imm = d.imm
    [] OTHER -> TRUE
MaskChecked(d, ev) == (d.k \in MemReadKinds \/ d.k \in FpMemKinds \/ d.k = "ISTORE") => ev.mask = d.mask

FpResults(d, st2) == IF d.k \in {"FADD_R", "FADD_M", "FSUB_R", "FSUB_M"} THEN <<st2.f[d.dst + 1][1], st2.f[d.dst + 1][2]>>
                     ELSE IF d.k \in {"FMUL_R", "FDIV_M", "FSQRT_R"} THEN <<st2.e[d.dst + 1][1], st2.e[d.dst + 1][2]>>
                     ELSE <<>>

StepOk(ev) ==
  LET s == Step(ev.w, ev.i, ev.usage, StateOf(ev), ev.v2, PatMem(ev.pat))
      d == s.dec
      x == s.res
      fr == FpResults(d, x.st)
  IN  /\ ev.type = CodeType(d)
      /\ ImmChecked(d, ev) /\ MaskChecked(d, ev)
      /\ (d.k = "CBRANCH" => (ev.target = d.target /\ ev.cshift = d.shift))
      /\ ev.usage2 = d.usage
      /\ ev.r2 = x.st.r /\ ev.f2 = x.st.f /\ ev.e2 = x.st.e
      /\ ev.fprc2 = x.st.fprc
      /\ ev.pc2 = x.pc
      /\ ev.stores = (IF x.store = <<>> \/ x.store[2] = PatMem(ev.pat)[x.store[1]] THEN <<>> ELSE <<x.store>>)
      \* C05 invariants on what the instruction produced and on the operands it was given
      /\ \A i \in 1..Len(fr) : NoNaNSub(fr[i])
      /\ \A i \in 1..4 : \A j \in 1..2 : AInRange(ev.a[i][j])
      /\ (d.k \in {"FMUL_R", "FDIV_M", "FSQRT_R"} => \A i \in 1..Len(fr) : EPositive(fr[i]))

FpOk(ev) == FpOp(ev.op, ev.rc, ev.x, ev.y) = ev.r
RcpOk(ev) == LET p == <<ev.d[1], ev.d[2]>> IN ev.r = ev.rfast /\ IsRcp(p, ev.r) /\ ev.r = Rcp(p)

SweepOk(ev) == ev.mismatch = <<0, 0, 0>> /\ ev.notrcp = <<0, 0, 0>> /\ ev.divisors # <<0, 0, 0>>      \* counts as 16-bit limbs (they exceed 2^31)
EventOk(ev) == CASE ev.e = "step" -> StepOk(ev) [] ev.e = "fp" -> FpOk(ev) [] ev.e = "rcp" -> RcpOk(ev) [] ev.e = "sweep" -> SweepOk(ev) [] OTHER -> FALSE
Init == l = 1
Next == l <= Len(TraceLog) /\ EventOk(Ev) /\ l' = l + 1
Spec == Init /\ [][Next]_l
Accepted == TLCGet("stats").diameter - 1 = Len(TraceLog)
=============================================================================
