SPECIFICATION Spec
INVARIANT NoWX
POSTCONDITION Accepted
CHECK_DEADLOCK FALSE
