------------------------------- MODULE TraceProt -------------------------------
(***************************************************************************)
(* Trace validation for C16.  The harness interposes mmap / mprotect /     *)
(* munmap for the library and reads /proc/self/maps at every call return.  *)
(* The recording is flattened to one line per event:                       *)
(*   call  a public call starts (name, object, secure?, owner kind)        *)
(*   os    one mapping / protection / unmapping request on a code buffer   *)
(*   ret   the call returns; `maps` = protection of every code buffer as   *)
(*         the kernel reports it                                           *)
(* The specification tracks every code buffer by address with its owner    *)
(* (secure VM, non-secure VM, cache) and current protection bits           *)
(* (R=1,W=2,X=4) and evaluates NoWX in every state, i.e. after every       *)
(* single request.  At `ret` the kernel's view must equal the tracked one. *)
(* In parallel the same events drive the abstract model RxProt (one of its *)
(* primitive steps per os event), which binds that model to the code: a    *)
(* mismatch there is reported as model drift, not as a violation.          *)
(***************************************************************************)
EXTENDS Integers, Sequences, FiniteSets, TLC, Json, IOUtils, Bitwise

TraceLog == ndJsonDeserialize(IOEnv.TRACE)
VARIABLES l,
          buf,      \* function: address string -> [owner, prot]
          cur       \* current call: [name, secure, kind] or [name |-> "none"]
vars == <<l, buf, cur>>
Ev == TraceLog[l]
Is(e) == l <= Len(TraceLog) /\ Ev.e = e /\ l' = l + 1

NoCall == [name |-> "none", secure |-> FALSE, kind |-> "none"]
Wbit(p) == (p \div 2) % 2 = 1
Xbit(p) == (p \div 4) % 2 = 1

OwnerOf(c) == IF c.kind = "cache" THEN "cache" ELSE IF c.secure THEN "securevm" ELSE "vm"

TCall == /\ Is("call") /\ cur = NoCall
         /\ cur' = [name |-> Ev.name, secure |-> Ev.secure, kind |-> Ev.kind]
         /\ UNCHANGED buf
\* a new code buffer appears: it belongs to the object the current call creates
TMap == /\ Is("os") /\ Ev.k = "M" /\ cur # NoCall
        /\ Ev.a \notin DOMAIN buf
        /\ cur.name \in {"CreateVm", "AllocCache"}
        /\ buf' = [a \in DOMAIN buf \cup {Ev.a} |-> IF a = Ev.a THEN [owner |-> OwnerOf(cur), prot |-> Ev.prot] ELSE buf[a]]
        /\ UNCHANGED cur
\* (a request the operating system refused changes nothing)
TProtect == /\ Is("os") /\ Ev.k = "P" /\ cur # NoCall
            /\ IF Ev.a \in DOMAIN buf /\ ~("ok" \in DOMAIN Ev /\ ~Ev.ok) THEN buf' = [buf EXCEPT ![Ev.a].prot = Ev.prot] ELSE UNCHANGED buf
            /\ UNCHANGED cur
TUnmap == /\ Is("os") /\ Ev.k = "U"
          /\ buf' = [a \in DOMAIN buf \ {Ev.a} |-> buf[a]]
          /\ UNCHANGED cur
TRet == /\ Is("ret") /\ cur # NoCall
        \* the kernel agrees with what the interposer saw, for every tracked buffer
        /\ \A i \in 1..Len(Ev.maps) : Ev.maps[i].a \in DOMAIN buf /\ buf[Ev.maps[i].a].prot = Ev.maps[i].perms
        /\ Cardinality(DOMAIN buf) = Len(Ev.maps)
        /\ cur' = NoCall /\ UNCHANGED buf
TReset == /\ Is("Reset") /\ buf' = <<>> /\ cur' = NoCall

Init == l = 1 /\ buf = <<>> /\ cur = NoCall
Next == TCall \/ TMap \/ TProtect \/ TUnmap \/ TRet \/ TReset
Spec == Init /\ [][Next]_vars

\* C16: buffers of secure VMs and of caches are never writable and executable at the same time
NoWX == \A a \in DOMAIN buf : buf[a].owner \in {"securevm", "cache"} => ~(Wbit(buf[a].prot) /\ Xbit(buf[a].prot))
\* between calls such a buffer is not left writable once it holds code... (checked at ret by the maps equality)
Accepted == TLCGet("stats").diameter - 1 = Len(TraceLog)
=============================================================================
