SPECIFICATION TraceSpec
CONSTANTS
  Vms = {"v1", "v2"}
  Caches = {"c1", "c2"}
  NProg = 8
  RetryWithAll = FALSE
INVARIANT NoWX
INVARIANT NoFault
INVARIANT RestsExecutable
POSTCONDITION Accepted
CHECK_DEADLOCK FALSE
