---------------------------- MODULE TraceProtModel ----------------------------
(***************************************************************************)
(* Binds the abstract protection model RxProt to the code: the flattened   *)
(* recording (see TraceProt) must be a behaviour of RxProt in which every  *)
(* `call` line is the corresponding public-call action and every `os` line *)
(* is the next observable primitive of that call (Generate / Execute steps *)
(* are not observable and are consumed silently, checking that they happen *)
(* on writable / executable pages).  At `ret` the call's step list must be *)
(* exhausted.  Acceptance means the model's call structure is the code's.  *)
(***************************************************************************)
EXTENDS RxProt, Json, IOUtils

TraceLog == ndJsonDeserialize(IOEnv.TRACE)
VARIABLES l, amap      \* amap: address -> model buffer
tvars == <<vars, l, amap>>
Ev == TraceLog[l]
Is(e) == l <= Len(TraceLog) /\ Ev.e = e /\ l' = l + 1

Silent(st) == st[1] \in {"Generate", "Execute"}
\* drop leading unobservable steps; returns <<rest, faulted>>
RECURSIVE Skip(_, _)
Skip(q, f) == IF q # <<>> /\ Silent(Head(q))
              THEN Skip(Tail(q), f \/ (Head(q)[1] = "Generate" /\ ~W(prot[Head(q)[2]]))
                                   \/ (Head(q)[1] = "Execute" /\ ~X(prot[Head(q)[2]])))
              ELSE <<q, f>>

OpOf(ev) == CASE ev.k = "M" -> "Map" [] ev.k = "U" -> "Unmap"
              [] ev.k = "P" /\ ev.prot = 3 -> "EnableWriting"
              [] ev.k = "P" /\ ev.prot = 5 -> "EnableExecution"
              [] ev.k = "P" /\ ev.prot = 7 -> "EnableAll"
              [] OTHER -> "unknown"

TCall ==
  /\ Is("call") /\ todo = <<>>
  /\ CASE Ev.name = "CreateVm" -> CreateVm(Ev.obj, Ev.secure, Ev.light)
       [] Ev.name \in {"Hash", "HashNext", "HashLast"} -> RunPrograms(Ev.obj)
       [] Ev.name = "SetCache" /\ Ev.rebind -> SetCache(Ev.obj)
       [] Ev.name = "DestroyVm" -> DestroyVm(Ev.obj)
       [] Ev.name = "AllocCache" -> AllocCache(Ev.obj)
       [] Ev.name = "InitCache" /\ Ev.reinit -> InitCache(Ev.obj)
       [] Ev.name = "InitDatasetReal" -> InitDataset(Ev.obj)
       [] Ev.name = "ReleaseCache" -> ReleaseCache(Ev.obj)
       [] OTHER -> UNCHANGED vars                \* calls that touch no code buffer
  /\ UNCHANGED amap

TOs ==
  /\ Is("os")
  /\ LET sk == Skip(todo, fault)
         q == sk[1]
     IN  /\ q # <<>>
         /\ Head(q)[1] = OpOf(Ev)
         /\ LET b == Head(q)[2]
            IN  /\ (Ev.k = "M" \/ (Ev.a \in DOMAIN amap /\ amap[Ev.a] = b))
                /\ amap' = IF Ev.k = "M" THEN [a \in DOMAIN amap \cup {Ev.a} |-> IF a = Ev.a THEN b ELSE amap[a]]
                           ELSE IF Ev.k = "U" THEN [a \in DOMAIN amap \ {Ev.a} |-> amap[a]] ELSE amap
                /\ prot' = CASE OpOf(Ev) = "Map" -> [prot EXCEPT ![b] = "RW"]
                             [] OpOf(Ev) = "EnableWriting" -> [prot EXCEPT ![b] = "RW"]
                             [] OpOf(Ev) = "EnableExecution" -> [prot EXCEPT ![b] = "RX"]
                             [] OpOf(Ev) = "EnableAll" -> [prot EXCEPT ![b] = "RWX"]
                             [] OpOf(Ev) = "Unmap" -> [prot EXCEPT ![b] = "unmapped"]
         /\ todo' = Tail(q)
         /\ fault' = sk[2]
  /\ UNCHANGED <<secure, light, alive, inited, refused>>

TRet == /\ Is("ret")
        /\ LET sk == Skip(todo, fault) IN sk[1] = <<>> /\ todo' = <<>> /\ fault' = sk[2]
        /\ UNCHANGED <<prot, secure, light, alive, inited, refused, amap>>

TReset == /\ Is("Reset") /\ todo = <<>>
          /\ prot' = [b \in Bufs |-> "unmapped"] /\ secure' = [v \in Vms |-> FALSE] /\ light' = [v \in Vms |-> FALSE]
          /\ alive' = [b \in Bufs |-> FALSE] /\ inited' = [c \in Caches |-> FALSE] /\ todo' = <<>> /\ fault' = FALSE
          /\ refused' = [b \in Bufs |-> FALSE] /\ amap' = <<>>

TraceInit == Init /\ l = 1 /\ amap = <<>>
TraceNext == TCall \/ TOs \/ TRet \/ TReset
TraceSpec == TraceInit /\ [][TraceNext]_tvars
Accepted == TLCGet("stats").diameter - 1 = Len(TraceLog)
=============================================================================
