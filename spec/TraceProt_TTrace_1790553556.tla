---- MODULE TraceProt_TTrace_1790553556 ----
EXTENDS Sequences, TLCExt, Toolbox, TraceProt, Naturals, TLC

_expression ==
    LET TraceProt_TEExpression == INSTANCE TraceProt_TEExpression
    IN TraceProt_TEExpression!expression
----

_trace ==
    LET TraceProt_TETrace == INSTANCE TraceProt_TETrace
    IN TraceProt_TETrace!trace
----

_inv ==
    ~(
        TLCGet("level") = Len(_TETrace)
        /\
        cur = ([name |-> "InitCache", secure |-> FALSE, kind |-> "cache"])
        /\
        buf = ([7f2ebb121000 |-> [owner |-> "cache", prot |-> 7], 7f2ebb10d000 |-> [owner |-> "securevm", prot |-> 5]])
        /\
        l = (34)
    )
----

_init ==
    /\ cur = _TETrace[1].cur
    /\ l = _TETrace[1].l
    /\ buf = _TETrace[1].buf
----

_next ==
    /\ \E i,j \in DOMAIN _TETrace:
        /\ \/ /\ j = i + 1
              /\ i = TLCGet("level")
        /\ cur  = _TETrace[i].cur
        /\ cur' = _TETrace[j].cur
        /\ l  = _TETrace[i].l
        /\ l' = _TETrace[j].l
        /\ buf  = _TETrace[i].buf
        /\ buf' = _TETrace[j].buf

\* Uncomment the ASSUME below to write the states of the error trace
\* to the given file in Json format. Note that you can pass any tuple
\* to `JsonSerialize`. For example, a sub-sequence of _TETrace.
    \* ASSUME
    \*     LET J == INSTANCE Json
    \*         IN J!JsonSerialize("TraceProt_TTrace_1790553556.json", _TETrace)

=============================================================================

 Note that you can extract this module `TraceProt_TEExpression`
  to a dedicated file to reuse `expression` (the module in the 
  dedicated `TraceProt_TEExpression.tla` file takes precedence 
  over the module `TraceProt_TEExpression` below).

---- MODULE TraceProt_TEExpression ----
EXTENDS Sequences, TLCExt, Toolbox, TraceProt, Naturals, TLC

expression == 
    [
        \* To hide variables of the `TraceProt` spec from the error trace,
        \* remove the variables below.  The trace will be written in the order
        \* of the fields of this record.
        cur |-> cur
        ,l |-> l
        ,buf |-> buf
        
        \* Put additional constant-, state-, and action-level expressions here:
        \* ,_stateNumber |-> _TEPosition
        \* ,_curUnchanged |-> cur = cur'
        
        \* Format the `cur` variable as Json value.
        \* ,_curJson |->
        \*     LET J == INSTANCE Json
        \*     IN J!ToJson(cur)
        
        \* Lastly, you may build expressions over arbitrary sets of states by
        \* leveraging the _TETrace operator.  For example, this is how to
        \* count the number of times a spec variable changed up to the current
        \* state in the trace.
        \* ,_curModCount |->
        \*     LET F[s \in DOMAIN _TETrace] ==
        \*         IF s = 1 THEN 0
        \*         ELSE IF _TETrace[s].cur # _TETrace[s-1].cur
        \*             THEN 1 + F[s-1] ELSE F[s-1]
        \*     IN F[_TEPosition - 1]
    ]

=============================================================================



Parsing and semantic processing can take forever if the trace below is long.
 In this case, it is advised to uncomment the module below to deserialize the
 trace from a generated binary file.

\*
\*---- MODULE TraceProt_TETrace ----
\*EXTENDS IOUtils, TraceProt, TLC
\*
\*trace == IODeserialize("TraceProt_TTrace_1790553556.bin", TRUE)
\*
\*=============================================================================
\*

---- MODULE TraceProt_TETrace ----
EXTENDS TraceProt, TLC

trace == 
    <<
    ([cur |-> [name |-> "none", secure |-> FALSE, kind |-> "none"],buf |-> <<>>,l |-> 1]),
    ([cur |-> [name |-> "none", secure |-> FALSE, kind |-> "none"],buf |-> <<>>,l |-> 2]),
    ([cur |-> [name |-> "AllocCache", secure |-> FALSE, kind |-> "cache"],buf |-> <<>>,l |-> 3]),
    ([cur |-> [name |-> "AllocCache", secure |-> FALSE, kind |-> "cache"],buf |-> [7f2ebb121000 |-> [owner |-> "cache", prot |-> 3]],l |-> 4]),
    ([cur |-> [name |-> "none", secure |-> FALSE, kind |-> "none"],buf |-> [7f2ebb121000 |-> [owner |-> "cache", prot |-> 3]],l |-> 5]),
    ([cur |-> [name |-> "InitCache", secure |-> FALSE, kind |-> "cache"],buf |-> [7f2ebb121000 |-> [owner |-> "cache", prot |-> 3]],l |-> 6]),
    ([cur |-> [name |-> "InitCache", secure |-> FALSE, kind |-> "cache"],buf |-> [7f2ebb121000 |-> [owner |-> "cache", prot |-> 3]],l |-> 7]),
    ([cur |-> [name |-> "InitCache", secure |-> FALSE, kind |-> "cache"],buf |-> [7f2ebb121000 |-> [owner |-> "cache", prot |-> 5]],l |-> 8]),
    ([cur |-> [name |-> "none", secure |-> FALSE, kind |-> "none"],buf |-> [7f2ebb121000 |-> [owner |-> "cache", prot |-> 5]],l |-> 9]),
    ([cur |-> [name |-> "CreateVm", secure |-> TRUE, kind |-> "vm"],buf |-> [7f2ebb121000 |-> [owner |-> "cache", prot |-> 5]],l |-> 10]),
    ([cur |-> [name |-> "CreateVm", secure |-> TRUE, kind |-> "vm"],buf |-> [7f2ebb121000 |-> [owner |-> "cache", prot |-> 5], 7f2ebb10d000 |-> [owner |-> "securevm", prot |-> 3]],l |-> 11]),
    ([cur |-> [name |-> "CreateVm", secure |-> TRUE, kind |-> "vm"],buf |-> [7f2ebb121000 |-> [owner |-> "cache", prot |-> 5], 7f2ebb10d000 |-> [owner |-> "securevm", prot |-> 3]],l |-> 12]),
    ([cur |-> [name |-> "CreateVm", secure |-> TRUE, kind |-> "vm"],buf |-> [7f2ebb121000 |-> [owner |-> "cache", prot |-> 5], 7f2ebb10d000 |-> [owner |-> "securevm", prot |-> 5]],l |-> 13]),
    ([cur |-> [name |-> "none", secure |-> FALSE, kind |-> "none"],buf |-> [7f2ebb121000 |-> [owner |-> "cache", prot |-> 5], 7f2ebb10d000 |-> [owner |-> "securevm", prot |-> 5]],l |-> 14]),
    ([cur |-> [name |-> "Hash", secure |-> TRUE, kind |-> "vm"],buf |-> [7f2ebb121000 |-> [owner |-> "cache", prot |-> 5], 7f2ebb10d000 |-> [owner |-> "securevm", prot |-> 5]],l |-> 15]),
    ([cur |-> [name |-> "Hash", secure |-> TRUE, kind |-> "vm"],buf |-> [7f2ebb121000 |-> [owner |-> "cache", prot |-> 5], 7f2ebb10d000 |-> [owner |-> "securevm", prot |-> 3]],l |-> 16]),
    ([cur |-> [name |-> "Hash", secure |-> TRUE, kind |-> "vm"],buf |-> [7f2ebb121000 |-> [owner |-> "cache", prot |-> 5], 7f2ebb10d000 |-> [owner |-> "securevm", prot |-> 5]],l |-> 17]),
    ([cur |-> [name |-> "Hash", secure |-> TRUE, kind |-> "vm"],buf |-> [7f2ebb121000 |-> [owner |-> "cache", prot |-> 5], 7f2ebb10d000 |-> [owner |-> "securevm", prot |-> 3]],l |-> 18]),
    ([cur |-> [name |-> "Hash", secure |-> TRUE, kind |-> "vm"],buf |-> [7f2ebb121000 |-> [owner |-> "cache", prot |-> 5], 7f2ebb10d000 |-> [owner |-> "securevm", prot |-> 5]],l |-> 19]),
    ([cur |-> [name |-> "Hash", secure |-> TRUE, kind |-> "vm"],buf |-> [7f2ebb121000 |-> [owner |-> "cache", prot |-> 5], 7f2ebb10d000 |-> [owner |-> "securevm", prot |-> 3]],l |-> 20]),
    ([cur |-> [name |-> "Hash", secure |-> TRUE, kind |-> "vm"],buf |-> [7f2ebb121000 |-> [owner |-> "cache", prot |-> 5], 7f2ebb10d000 |-> [owner |-> "securevm", prot |-> 5]],l |-> 21]),
    ([cur |-> [name |-> "Hash", secure |-> TRUE, kind |-> "vm"],buf |-> [7f2ebb121000 |-> [owner |-> "cache", prot |-> 5], 7f2ebb10d000 |-> [owner |-> "securevm", prot |-> 3]],l |-> 22]),
    ([cur |-> [name |-> "Hash", secure |-> TRUE, kind |-> "vm"],buf |-> [7f2ebb121000 |-> [owner |-> "cache", prot |-> 5], 7f2ebb10d000 |-> [owner |-> "securevm", prot |-> 5]],l |-> 23]),
    ([cur |-> [name |-> "Hash", secure |-> TRUE, kind |-> "vm"],buf |-> [7f2ebb121000 |-> [owner |-> "cache", prot |-> 5], 7f2ebb10d000 |-> [owner |-> "securevm", prot |-> 3]],l |-> 24]),
    ([cur |-> [name |-> "Hash", secure |-> TRUE, kind |-> "vm"],buf |-> [7f2ebb121000 |-> [owner |-> "cache", prot |-> 5], 7f2ebb10d000 |-> [owner |-> "securevm", prot |-> 5]],l |-> 25]),
    ([cur |-> [name |-> "Hash", secure |-> TRUE, kind |-> "vm"],buf |-> [7f2ebb121000 |-> [owner |-> "cache", prot |-> 5], 7f2ebb10d000 |-> [owner |-> "securevm", prot |-> 3]],l |-> 26]),
    ([cur |-> [name |-> "Hash", secure |-> TRUE, kind |-> "vm"],buf |-> [7f2ebb121000 |-> [owner |-> "cache", prot |-> 5], 7f2ebb10d000 |-> [owner |-> "securevm", prot |-> 5]],l |-> 27]),
    ([cur |-> [name |-> "Hash", secure |-> TRUE, kind |-> "vm"],buf |-> [7f2ebb121000 |-> [owner |-> "cache", prot |-> 5], 7f2ebb10d000 |-> [owner |-> "securevm", prot |-> 3]],l |-> 28]),
    ([cur |-> [name |-> "Hash", secure |-> TRUE, kind |-> "vm"],buf |-> [7f2ebb121000 |-> [owner |-> "cache", prot |-> 5], 7f2ebb10d000 |-> [owner |-> "securevm", prot |-> 5]],l |-> 29]),
    ([cur |-> [name |-> "Hash", secure |-> TRUE, kind |-> "vm"],buf |-> [7f2ebb121000 |-> [owner |-> "cache", prot |-> 5], 7f2ebb10d000 |-> [owner |-> "securevm", prot |-> 3]],l |-> 30]),
    ([cur |-> [name |-> "Hash", secure |-> TRUE, kind |-> "vm"],buf |-> [7f2ebb121000 |-> [owner |-> "cache", prot |-> 5], 7f2ebb10d000 |-> [owner |-> "securevm", prot |-> 5]],l |-> 31]),
    ([cur |-> [name |-> "none", secure |-> FALSE, kind |-> "none"],buf |-> [7f2ebb121000 |-> [owner |-> "cache", prot |-> 5], 7f2ebb10d000 |-> [owner |-> "securevm", prot |-> 5]],l |-> 32]),
    ([cur |-> [name |-> "InitCache", secure |-> FALSE, kind |-> "cache"],buf |-> [7f2ebb121000 |-> [owner |-> "cache", prot |-> 5], 7f2ebb10d000 |-> [owner |-> "securevm", prot |-> 5]],l |-> 33]),
    ([cur |-> [name |-> "InitCache", secure |-> FALSE, kind |-> "cache"],buf |-> [7f2ebb121000 |-> [owner |-> "cache", prot |-> 7], 7f2ebb10d000 |-> [owner |-> "securevm", prot |-> 5]],l |-> 34])
    >>
----


=============================================================================

---- CONFIG TraceProt_TTrace_1790553556 ----

INVARIANT
    _inv

CHECK_DEADLOCK
    \* CHECK_DEADLOCK off because of PROPERTY or INVARIANT above.
    FALSE

INIT
    _init

NEXT
    _next

CONSTANT
    _TETrace <- _trace

ALIAS
    _expression
=============================================================================
\* Generated on Sun Sep 27 23:59:19 UTC 2026