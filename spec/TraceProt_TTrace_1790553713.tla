---- MODULE TraceProt_TTrace_1790553713 ----
EXTENDS Sequences, TLCExt, Toolbox, TraceProt, Naturals, TLC

_expression ==
    LET TraceProt_TEExpression == INSTANCE TraceProt_TEExpression
    IN TraceProt_TEExpression!expression
----

_trace ==
    LET TraceProt_TETrace == INSTANCE TraceProt_TETrace
    IN TraceProt_TETrace!trace
----

_inv ==
    ~(
        TLCGet("level") = Len(_TETrace)
        /\
        cur = ([name |-> "CreateVm", secure |-> TRUE, kind |-> "vm"])
        /\
        buf = ([7fb2976ad000 |-> [owner |-> "cache", prot |-> 5], 7fb297685000 |-> [owner |-> "securevm", prot |-> 7]])
        /\
        l = (167)
    )
----

_init ==
    /\ cur = _TETrace[1].cur
    /\ l = _TETrace[1].l
    /\ buf = _TETrace[1].buf
----

_next ==
    /\ \E i,j \in DOMAIN _TETrace:
        /\ \/ /\ j = i + 1
              /\ i = TLCGet("level")
        /\ cur  = _TETrace[i].cur
        /\ cur' = _TETrace[j].cur
        /\ l  = _TETrace[i].l
        /\ l' = _TETrace[j].l
        /\ buf  = _TETrace[i].buf
        /\ buf' = _TETrace[j].buf

\* Uncomment the ASSUME below to write the states of the error trace
\* to the given file in Json format. Note that you can pass any tuple
\* to `JsonSerialize`. For example, a sub-sequence of _TETrace.
    \* ASSUME
    \*     LET J == INSTANCE Json
    \*         IN J!JsonSerialize("TraceProt_TTrace_1790553713.json", _TETrace)

=============================================================================

 Note that you can extract this module `TraceProt_TEExpression`
  to a dedicated file to reuse `expression` (the module in the 
  dedicated `TraceProt_TEExpression.tla` file takes precedence 
  over the module `TraceProt_TEExpression` below).

---- MODULE TraceProt_TEExpression ----
EXTENDS Sequences, TLCExt, Toolbox, TraceProt, Naturals, TLC

expression == 
    [
        \* To hide variables of the `TraceProt` spec from the error trace,
        \* remove the variables below.  The trace will be written in the order
        \* of the fields of this record.
        cur |-> cur
        ,l |-> l
        ,buf |-> buf
        
        \* Put additional constant-, state-, and action-level expressions here:
        \* ,_stateNumber |-> _TEPosition
        \* ,_curUnchanged |-> cur = cur'
        
        \* Format the `cur` variable as Json value.
        \* ,_curJson |->
        \*     LET J == INSTANCE Json
        \*     IN J!ToJson(cur)
        
        \* Lastly, you may build expressions over arbitrary sets of states by
        \* leveraging the _TETrace operator.  For example, this is how to
        \* count the number of times a spec variable changed up to the current
        \* state in the trace.
        \* ,_curModCount |->
        \*     LET F[s \in DOMAIN _TETrace] ==
        \*         IF s = 1 THEN 0
        \*         ELSE IF _TETrace[s].cur # _TETrace[s-1].cur
        \*             THEN 1 + F[s-1] ELSE F[s-1]
        \*     IN F[_TEPosition - 1]
    ]

=============================================================================



Parsing and semantic processing can take forever if the trace below is long.
 In this case, it is advised to uncomment the module below to deserialize the
 trace from a generated binary file.

\*
\*---- MODULE TraceProt_TETrace ----
\*EXTENDS IOUtils, TraceProt, TLC
\*
\*trace == IODeserialize("TraceProt_TTrace_1790553713.bin", TRUE)
\*
\*=============================================================================
\*

---- MODULE TraceProt_TETrace ----
EXTENDS TraceProt, TLC

trace == 
    <<
    ([cur |-> [name |-> "none", secure |-> FALSE, kind |-> "none"],buf |-> <<>>,l |-> 1]),
    ([cur |-> [name |-> "none", secure |-> FALSE, kind |-> "none"],buf |-> <<>>,l |-> 2]),
    ([cur |-> [name |-> "AllocCache", secure |-> FALSE, kind |-> "cache"],buf |-> <<>>,l |-> 3]),
    ([cur |-> [name |-> "AllocCache", secure |-> FALSE, kind |-> "cache"],buf |-> [7fbb0a459000 |-> [owner |-> "cache", prot |-> 3]],l |-> 4]),
    ([cur |-> [name |-> "none", secure |-> FALSE, kind |-> "none"],buf |-> [7fbb0a459000 |-> [owner |-> "cache", prot |-> 3]],l |-> 5]),
    ([cur |-> [name |-> "InitCache", secure |-> FALSE, kind |-> "cache"],buf |-> [7fbb0a459000 |-> [owner |-> "cache", prot |-> 3]],l |-> 6]),
    ([cur |-> [name |-> "InitCache", secure |-> FALSE, kind |-> "cache"],buf |-> [7fbb0a459000 |-> [owner |-> "cache", prot |-> 3]],l |-> 7]),
    ([cur |-> [name |-> "InitCache", secure |-> FALSE, kind |-> "cache"],buf |-> [7fbb0a459000 |-> [owner |-> "cache", prot |-> 5]],l |-> 8]),
    ([cur |-> [name |-> "none", secure |-> FALSE, kind |-> "none"],buf |-> [7fbb0a459000 |-> [owner |-> "cache", prot |-> 5]],l |-> 9]),
    ([cur |-> [name |-> "CreateVm", secure |-> TRUE, kind |-> "vm"],buf |-> [7fbb0a459000 |-> [owner |-> "cache", prot |-> 5]],l |-> 10]),
    ([cur |-> [name |-> "CreateVm", secure |-> TRUE, kind |-> "vm"],buf |-> [7fbb0a459000 |-> [owner |-> "cache", prot |-> 5], 7fbb0a445000 |-> [owner |-> "securevm", prot |-> 3]],l |-> 11]),
    ([cur |-> [name |-> "CreateVm", secure |-> TRUE, kind |-> "vm"],buf |-> [7fbb0a459000 |-> [owner |-> "cache", prot |-> 5], 7fbb0a445000 |-> [owner |-> "securevm", prot |-> 3]],l |-> 12]),
    ([cur |-> [name |-> "CreateVm", secure |-> TRUE, kind |-> "vm"],buf |-> [7fbb0a459000 |-> [owner |-> "cache", prot |-> 5], 7fbb0a445000 |-> [owner |-> "securevm", prot |-> 5]],l |-> 13]),
    ([cur |-> [name |-> "none", secure |-> FALSE, kind |-> "none"],buf |-> [7fbb0a459000 |-> [owner |-> "cache", prot |-> 5], 7fbb0a445000 |-> [owner |-> "securevm", prot |-> 5]],l |-> 14]),
    ([cur |-> [name |-> "ReleaseCache", secure |-> FALSE, kind |-> "cache"],buf |-> [7fbb0a459000 |-> [owner |-> "cache", prot |-> 5], 7fbb0a445000 |-> [owner |-> "securevm", prot |-> 5]],l |-> 15]),
    ([cur |-> [name |-> "ReleaseCache", secure |-> FALSE, kind |-> "cache"],buf |-> [7fbb0a445000 |-> [owner |-> "securevm", prot |-> 5]],l |-> 16]),
    ([cur |-> [name |-> "none", secure |-> FALSE, kind |-> "none"],buf |-> [7fbb0a445000 |-> [owner |-> "securevm", prot |-> 5]],l |-> 17]),
    ([cur |-> [name |-> "AllocCache", secure |-> FALSE, kind |-> "cache"],buf |-> [7fbb0a445000 |-> [owner |-> "securevm", prot |-> 5]],l |-> 18]),
    ([cur |-> [name |-> "AllocCache", secure |-> FALSE, kind |-> "cache"],buf |-> [7fbb0a459000 |-> [owner |-> "cache", prot |-> 3], 7fbb0a445000 |-> [owner |-> "securevm", prot |-> 5]],l |-> 19]),
    ([cur |-> [name |-> "none", secure |-> FALSE, kind |-> "none"],buf |-> [7fbb0a459000 |-> [owner |-> "cache", prot |-> 3], 7fbb0a445000 |-> [owner |-> "securevm", prot |-> 5]],l |-> 20]),
    ([cur |-> [name |-> "InitCache", secure |-> FALSE, kind |-> "cache"],buf |-> [7fbb0a459000 |-> [owner |-> "cache", prot |-> 3], 7fbb0a445000 |-> [owner |-> "securevm", prot |-> 5]],l |-> 21]),
    ([cur |-> [name |-> "InitCache", secure |-> FALSE, kind |-> "cache"],buf |-> [7fbb0a459000 |-> [owner |-> "cache", prot |-> 3], 7fbb0a445000 |-> [owner |-> "securevm", prot |-> 5]],l |-> 22]),
    ([cur |-> [name |-> "InitCache", secure |-> FALSE, kind |-> "cache"],buf |-> [7fbb0a459000 |-> [owner |-> "cache", prot |-> 5], 7fbb0a445000 |-> [owner |-> "securevm", prot |-> 5]],l |-> 23]),
    ([cur |-> [name |-> "none", secure |-> FALSE, kind |-> "none"],buf |-> [7fbb0a459000 |-> [owner |-> "cache", prot |-> 5], 7fbb0a445000 |-> [owner |-> "securevm", prot |-> 5]],l |-> 24]),
    ([cur |-> [name |-> "SetCache", secure |-> TRUE, kind |-> "vm"],buf |-> [7fbb0a459000 |-> [owner |-> "cache", prot |-> 5], 7fbb0a445000 |-> [owner |-> "securevm", prot |-> 5]],l |-> 25]),
    ([cur |-> [name |-> "SetCache", secure |-> TRUE, kind |-> "vm"],buf |-> [7fbb0a459000 |-> [owner |-> "cache", prot |-> 5], 7fbb0a445000 |-> [owner |-> "securevm", prot |-> 3]],l |-> 26]),
    ([cur |-> [name |-> "SetCache", secure |-> TRUE, kind |-> "vm"],buf |-> [7fbb0a459000 |-> [owner |-> "cache", prot |-> 5], 7fbb0a445000 |-> [owner |-> "securevm", prot |-> 5]],l |-> 27]),
    ([cur |-> [name |-> "none", secure |-> FALSE, kind |-> "none"],buf |-> [7fbb0a459000 |-> [owner |-> "cache", prot |-> 5], 7fbb0a445000 |-> [owner |-> "securevm", prot |-> 5]],l |-> 28]),
    ([cur |-> [name |-> "Hash", secure |-> TRUE, kind |-> "vm"],buf |-> [7fbb0a459000 |-> [owner |-> "cache", prot |-> 5], 7fbb0a445000 |-> [owner |-> "securevm", prot |-> 5]],l |-> 29]),
    ([cur |-> [name |-> "Hash", secure |-> TRUE, kind |-> "vm"],buf |-> [7fbb0a459000 |-> [owner |-> "cache", prot |-> 5], 7fbb0a445000 |-> [owner |-> "securevm", prot |-> 3]],l |-> 30]),
    ([cur |-> [name |-> "Hash", secure |-> TRUE, kind |-> "vm"],buf |-> [7fbb0a459000 |-> [owner |-> "cache", prot |-> 5], 7fbb0a445000 |-> [owner |-> "securevm", prot |-> 5]],l |-> 31]),
    ([cur |-> [name |-> "Hash", secure |-> TRUE, kind |-> "vm"],buf |-> [7fbb0a459000 |-> [owner |-> "cache", prot |-> 5], 7fbb0a445000 |-> [owner |-> "securevm", prot |-> 3]],l |-> 32]),
    ([cur |-> [name |-> "Hash", secure |-> TRUE, kind |-> "vm"],buf |-> [7fbb0a459000 |-> [owner |-> "cache", prot |-> 5], 7fbb0a445000 |-> [owner |-> "securevm", prot |-> 5]],l |-> 33]),
    ([cur |-> [name |-> "Hash", secure |-> TRUE, kind |-> "vm"],buf |-> [7fbb0a459000 |-> [owner |-> "cache", prot |-> 5], 7fbb0a445000 |-> [owner |-> "securevm", prot |-> 3]],l |-> 34]),
    ([cur |-> [name |-> "Hash", secure |-> TRUE, kind |-> "vm"],buf |-> [7fbb0a459000 |-> [owner |-> "cache", prot |-> 5], 7fbb0a445000 |-> [owner |-> "securevm", prot |-> 5]],l |-> 35]),
    ([cur |-> [name |-> "Hash", secure |-> TRUE, kind |-> "vm"],buf |-> [7fbb0a459000 |-> [owner |-> "cache", prot |-> 5], 7fbb0a445000 |-> [owner |-> "securevm", prot |-> 3]],l |-> 36]),
    ([cur |-> [name |-> "Hash", secure |-> TRUE, kind |-> "vm"],buf |-> [7fbb0a459000 |-> [owner |-> "cache", prot |-> 5], 7fbb0a445000 |-> [owner |-> "securevm", prot |-> 5]],l |-> 37]),
    ([cur |-> [name |-> "Hash", secure |-> TRUE, kind |-> "vm"],buf |-> [7fbb0a459000 |-> [owner |-> "cache", prot |-> 5], 7fbb0a445000 |-> [owner |-> "securevm", prot |-> 3]],l |-> 38]),
    ([cur |-> [name |-> "Hash", secure |-> TRUE, kind |-> "vm"],buf |-> [7fbb0a459000 |-> [owner |-> "cache", prot |-> 5], 7fbb0a445000 |-> [owner |-> "securevm", prot |-> 5]],l |-> 39]),
    ([cur |-> [name |-> "Hash", secure |-> TRUE, kind |-> "vm"],buf |-> [7fbb0a459000 |-> [owner |-> "cache", prot |-> 5], 7fbb0a445000 |-> [owner |-> "securevm", prot |-> 3]],l |-> 40]),
    ([cur |-> [name |-> "Hash", secure |-> TRUE, kind |-> "vm"],buf |-> [7fbb0a459000 |-> [owner |-> "cache", prot |-> 5], 7fbb0a445000 |-> [owner |-> "securevm", prot |-> 5]],l |-> 41]),
    ([cur |-> [name |-> "Hash", secure |-> TRUE, kind |-> "vm"],buf |-> [7fbb0a459000 |-> [owner |-> "cache", prot |-> 5], 7fbb0a445000 |-> [owner |-> "securevm", prot |-> 3]],l |-> 42]),
    ([cur |-> [name |-> "Hash", secure |-> TRUE, kind |-> "vm"],buf |-> [7fbb0a459000 |-> [owner |-> "cache", prot |-> 5], 7fbb0a445000 |-> [owner |-> "securevm", prot |-> 5]],l |-> 43]),
    ([cur |-> [name |-> "Hash", secure |-> TRUE, kind |-> "vm"],buf |-> [7fbb0a459000 |-> [owner |-> "cache", prot |-> 5], 7fbb0a445000 |-> [owner |-> "securevm", prot |-> 3]],l |-> 44]),
    ([cur |-> [name |-> "Hash", secure |-> TRUE, kind |-> "vm"],buf |-> [7fbb0a459000 |-> [owner |-> "cache", prot |-> 5], 7fbb0a445000 |-> [owner |-> "securevm", prot |-> 5]],l |-> 45]),
    ([cur |-> [name |-> "none", secure |-> FALSE, kind |-> "none"],buf |-> [7fbb0a459000 |-> [owner |-> "cache", prot |-> 5], 7fbb0a445000 |-> [owner |-> "securevm", prot |-> 5]],l |-> 46]),
    ([cur |-> [name |-> "Hash", secure |-> TRUE, kind |-> "vm"],buf |-> [7fbb0a459000 |-> [owner |-> "cache", prot |-> 5], 7fbb0a445000 |-> [owner |-> "securevm", prot |-> 5]],l |-> 47]),
    ([cur |-> [name |-> "Hash", secure |-> TRUE, kind |-> "vm"],buf |-> [7fbb0a459000 |-> [owner |-> "cache", prot |-> 5], 7fbb0a445000 |-> [owner |-> "securevm", prot |-> 3]],l |-> 48]),
    ([cur |-> [name |-> "Hash", secure |-> TRUE, kind |-> "vm"],buf |-> [7fbb0a459000 |-> [owner |-> "cache", prot |-> 5], 7fbb0a445000 |-> [owner |-> "securevm", prot |-> 5]],l |-> 49]),
    ([cur |-> [name |-> "Hash", secure |-> TRUE, kind |-> "vm"],buf |-> [7fbb0a459000 |-> [owner |-> "cache", prot |-> 5], 7fbb0a445000 |-> [owner |-> "securevm", prot |-> 3]],l |-> 50]),
    ([cur |-> [name |-> "Hash", secure |-> TRUE, kind |-> "vm"],buf |-> [7fbb0a459000 |-> [owner |-> "cache", prot |-> 5], 7fbb0a445000 |-> [owner |-> "securevm", prot |-> 5]],l |-> 51]),
    ([cur |-> [name |-> "Hash", secure |-> TRUE, kind |-> "vm"],buf |-> [7fbb0a459000 |-> [owner |-> "cache", prot |-> 5], 7fbb0a445000 |-> [owner |-> "securevm", prot |-> 3]],l |-> 52]),
    ([cur |-> [name |-> "Hash", secure |-> TRUE, kind |-> "vm"],buf |-> [7fbb0a459000 |-> [owner |-> "cache", prot |-> 5], 7fbb0a445000 |-> [owner |-> "securevm", prot |-> 5]],l |-> 53]),
    ([cur |-> [name |-> "Hash", secure |-> TRUE, kind |-> "vm"],buf |-> [7fbb0a459000 |-> [owner |-> "cache", prot |-> 5], 7fbb0a445000 |-> [owner |-> "securevm", prot |-> 3]],l |-> 54]),
    ([cur |-> [name |-> "Hash", secure |-> TRUE, kind |-> "vm"],buf |-> [7fbb0a459000 |-> [owner |-> "cache", prot |-> 5], 7fbb0a445000 |-> [owner |-> "securevm", prot |-> 5]],l |-> 55]),
    ([cur |-> [name |-> "Hash", secure |-> TRUE, kind |-> "vm"],buf |-> [7fbb0a459000 |-> [owner |-> "cache", prot |-> 5], 7fbb0a445000 |-> [owner |-> "securevm", prot |-> 3]],l |-> 56]),
    ([cur |-> [name |-> "Hash", secure |-> TRUE, kind |-> "vm"],buf |-> [7fbb0a459000 |-> [owner |-> "cache", prot |-> 5], 7fbb0a445000 |-> [owner |-> "securevm", prot |-> 5]],l |-> 57]),
    ([cur |-> [name |-> "Hash", secure |-> TRUE, kind |-> "vm"],buf |-> [7fbb0a459000 |-> [owner |-> "cache", prot |-> 5], 7fbb0a445000 |-> [owner |-> "securevm", prot |-> 3]],l |-> 58]),
    ([cur |-> [name |-> "Hash", secure |-> TRUE, kind |-> "vm"],buf |-> [7fbb0a459000 |-> [owner |-> "cache", prot |-> 5], 7fbb0a445000 |-> [owner |-> "securevm", prot |-> 5]],l |-> 59]),
    ([cur |-> [name |-> "Hash", secure |-> TRUE, kind |-> "vm"],buf |-> [7fbb0a459000 |-> [owner |-> "cache", prot |-> 5], 7fbb0a445000 |-> [owner |-> "securevm", prot |-> 3]],l |-> 60]),
    ([cur |-> [name |-> "Hash", secure |-> TRUE, kind |-> "vm"],buf |-> [7fbb0a459000 |-> [owner |-> "cache", prot |-> 5], 7fbb0a445000 |-> [owner |-> "securevm", prot |-> 5]],l |-> 61]),
    ([cur |-> [name |-> "Hash", secure |-> TRUE, kind |-> "vm"],buf |-> [7fbb0a459000 |-> [owner |-> "cache", prot |-> 5], 7fbb0a445000 |-> [owner |-> "securevm", prot |-> 3]],l |-> 62]),
    ([cur |-> [name |-> "Hash", secure |-> TRUE, kind |-> "vm"],buf |-> [7fbb0a459000 |-> [owner |-> "cache", prot |-> 5], 7fbb0a445000 |-> [owner |-> "securevm", prot |-> 5]],l |-> 63]),
    ([cur |-> [name |-> "none", secure |-> FALSE, kind |-> "none"],buf |-> [7fbb0a459000 |-> [owner |-> "cache", prot |-> 5], 7fbb0a445000 |-> [owner |-> "securevm", prot |-> 5]],l |-> 64]),
    ([cur |-> [name |-> "none", secure |-> FALSE, kind |-> "none"],buf |-> <<>>,l |-> 65]),
    ([cur |-> [name |-> "AllocCache", secure |-> FALSE, kind |-> "cache"],buf |-> <<>>,l |-> 66]),
    ([cur |-> [name |-> "AllocCache", secure |-> FALSE, kind |-> "cache"],buf |-> [7fe7804a1000 |-> [owner |-> "cache", prot |-> 3]],l |-> 67]),
    ([cur |-> [name |-> "none", secure |-> FALSE, kind |-> "none"],buf |-> [7fe7804a1000 |-> [owner |-> "cache", prot |-> 3]],l |-> 68]),
    ([cur |-> [name |-> "ReleaseCache", secure |-> FALSE, kind |-> "cache"],buf |-> [7fe7804a1000 |-> [owner |-> "cache", prot |-> 3]],l |-> 69]),
    ([cur |-> [name |-> "ReleaseCache", secure |-> FALSE, kind |-> "cache"],buf |-> <<>>,l |-> 70]),
    ([cur |-> [name |-> "none", secure |-> FALSE, kind |-> "none"],buf |-> <<>>,l |-> 71]),
    ([cur |-> [name |-> "AllocCache", secure |-> FALSE, kind |-> "cache"],buf |-> <<>>,l |-> 72]),
    ([cur |-> [name |-> "AllocCache", secure |-> FALSE, kind |-> "cache"],buf |-> [7fe7804a1000 |-> [owner |-> "cache", prot |-> 3]],l |-> 73]),
    ([cur |-> [name |-> "none", secure |-> FALSE, kind |-> "none"],buf |-> [7fe7804a1000 |-> [owner |-> "cache", prot |-> 3]],l |-> 74]),
    ([cur |-> [name |-> "AllocCache", secure |-> FALSE, kind |-> "cache"],buf |-> [7fe7804a1000 |-> [owner |-> "cache", prot |-> 3]],l |-> 75]),
    ([cur |-> [name |-> "AllocCache", secure |-> FALSE, kind |-> "cache"],buf |-> [7fe7804a1000 |-> [owner |-> "cache", prot |-> 3], 7fe78048d000 |-> [owner |-> "cache", prot |-> 3]],l |-> 76]),
    ([cur |-> [name |-> "none", secure |-> FALSE, kind |-> "none"],buf |-> [7fe7804a1000 |-> [owner |-> "cache", prot |-> 3], 7fe78048d000 |-> [owner |-> "cache", prot |-> 3]],l |-> 77]),
    ([cur |-> [name |-> "InitCache", secure |-> FALSE, kind |-> "cache"],buf |-> [7fe7804a1000 |-> [owner |-> "cache", prot |-> 3], 7fe78048d000 |-> [owner |-> "cache", prot |-> 3]],l |-> 78]),
    ([cur |-> [name |-> "InitCache", secure |-> FALSE, kind |-> "cache"],buf |-> [7fe7804a1000 |-> [owner |-> "cache", prot |-> 3], 7fe78048d000 |-> [owner |-> "cache", prot |-> 3]],l |-> 79]),
    ([cur |-> [name |-> "InitCache", secure |-> FALSE, kind |-> "cache"],buf |-> [7fe7804a1000 |-> [owner |-> "cache", prot |-> 3], 7fe78048d000 |-> [owner |-> "cache", prot |-> 5]],l |-> 80]),
    ([cur |-> [name |-> "none", secure |-> FALSE, kind |-> "none"],buf |-> [7fe7804a1000 |-> [owner |-> "cache", prot |-> 3], 7fe78048d000 |-> [owner |-> "cache", prot |-> 5]],l |-> 81]),
    ([cur |-> [name |-> "InitCache", secure |-> FALSE, kind |-> "cache"],buf |-> [7fe7804a1000 |-> [owner |-> "cache", prot |-> 3], 7fe78048d000 |-> [owner |-> "cache", prot |-> 5]],l |-> 82]),
    ([cur |-> [name |-> "InitCache", secure |-> FALSE, kind |-> "cache"],buf |-> [7fe7804a1000 |-> [owner |-> "cache", prot |-> 3], 7fe78048d000 |-> [owner |-> "cache", prot |-> 3]],l |-> 83]),
    ([cur |-> [name |-> "InitCache", secure |-> FALSE, kind |-> "cache"],buf |-> [7fe7804a1000 |-> [owner |-> "cache", prot |-> 3], 7fe78048d000 |-> [owner |-> "cache", prot |-> 5]],l |-> 84]),
    ([cur |-> [name |-> "none", secure |-> FALSE, kind |-> "none"],buf |-> [7fe7804a1000 |-> [owner |-> "cache", prot |-> 3], 7fe78048d000 |-> [owner |-> "cache", prot |-> 5]],l |-> 85]),
    ([cur |-> [name |-> "CreateVm", secure |-> TRUE, kind |-> "vm"],buf |-> [7fe7804a1000 |-> [owner |-> "cache", prot |-> 3], 7fe78048d000 |-> [owner |-> "cache", prot |-> 5]],l |-> 86]),
    ([cur |-> [name |-> "CreateVm", secure |-> TRUE, kind |-> "vm"],buf |-> [7fe7804a1000 |-> [owner |-> "cache", prot |-> 3], 7fe78048d000 |-> [owner |-> "cache", prot |-> 5], 7fe780479000 |-> [owner |-> "securevm", prot |-> 3]],l |-> 87]),
    ([cur |-> [name |-> "CreateVm", secure |-> TRUE, kind |-> "vm"],buf |-> [7fe7804a1000 |-> [owner |-> "cache", prot |-> 3], 7fe78048d000 |-> [owner |-> "cache", prot |-> 5], 7fe780479000 |-> [owner |-> "securevm", prot |-> 3]],l |-> 88]),
    ([cur |-> [name |-> "CreateVm", secure |-> TRUE, kind |-> "vm"],buf |-> [7fe7804a1000 |-> [owner |-> "cache", prot |-> 3], 7fe78048d000 |-> [owner |-> "cache", prot |-> 5], 7fe780479000 |-> [owner |-> "securevm", prot |-> 5]],l |-> 89]),
    ([cur |-> [name |-> "none", secure |-> FALSE, kind |-> "none"],buf |-> [7fe7804a1000 |-> [owner |-> "cache", prot |-> 3], 7fe78048d000 |-> [owner |-> "cache", prot |-> 5], 7fe780479000 |-> [owner |-> "securevm", prot |-> 5]],l |-> 90]),
    ([cur |-> [name |-> "InitCache", secure |-> FALSE, kind |-> "cache"],buf |-> [7fe7804a1000 |-> [owner |-> "cache", prot |-> 3], 7fe78048d000 |-> [owner |-> "cache", prot |-> 5], 7fe780479000 |-> [owner |-> "securevm", prot |-> 5]],l |-> 91]),
    ([cur |-> [name |-> "InitCache", secure |-> FALSE, kind |-> "cache"],buf |-> [7fe7804a1000 |-> [owner |-> "cache", prot |-> 3], 7fe78048d000 |-> [owner |-> "cache", prot |-> 5], 7fe780479000 |-> [owner |-> "securevm", prot |-> 5]],l |-> 92]),
    ([cur |-> [name |-> "InitCache", secure |-> FALSE, kind |-> "cache"],buf |-> [7fe7804a1000 |-> [owner |-> "cache", prot |-> 5], 7fe78048d000 |-> [owner |-> "cache", prot |-> 5], 7fe780479000 |-> [owner |-> "securevm", prot |-> 5]],l |-> 93]),
    ([cur |-> [name |-> "none", secure |-> FALSE, kind |-> "none"],buf |-> [7fe7804a1000 |-> [owner |-> "cache", prot |-> 5], 7fe78048d000 |-> [owner |-> "cache", prot |-> 5], 7fe780479000 |-> [owner |-> "securevm", prot |-> 5]],l |-> 94]),
    ([cur |-> [name |-> "SetCache", secure |-> TRUE, kind |-> "vm"],buf |-> [7fe7804a1000 |-> [owner |-> "cache", prot |-> 5], 7fe78048d000 |-> [owner |-> "cache", prot |-> 5], 7fe780479000 |-> [owner |-> "securevm", prot |-> 5]],l |-> 95]),
    ([cur |-> [name |-> "SetCache", secure |-> TRUE, kind |-> "vm"],buf |-> [7fe7804a1000 |-> [owner |-> "cache", prot |-> 5], 7fe78048d000 |-> [owner |-> "cache", prot |-> 5], 7fe780479000 |-> [owner |-> "securevm", prot |-> 3]],l |-> 96]),
    ([cur |-> [name |-> "SetCache", secure |-> TRUE, kind |-> "vm"],buf |-> [7fe7804a1000 |-> [owner |-> "cache", prot |-> 5], 7fe78048d000 |-> [owner |-> "cache", prot |-> 5], 7fe780479000 |-> [owner |-> "securevm", prot |-> 5]],l |-> 97]),
    ([cur |-> [name |-> "none", secure |-> FALSE, kind |-> "none"],buf |-> [7fe7804a1000 |-> [owner |-> "cache", prot |-> 5], 7fe78048d000 |-> [owner |-> "cache", prot |-> 5], 7fe780479000 |-> [owner |-> "securevm", prot |-> 5]],l |-> 98]),
    ([cur |-> [name |-> "Other", secure |-> FALSE, kind |-> "other"],buf |-> [7fe7804a1000 |-> [owner |-> "cache", prot |-> 5], 7fe78048d000 |-> [owner |-> "cache", prot |-> 5], 7fe780479000 |-> [owner |-> "securevm", prot |-> 5]],l |-> 99]),
    ([cur |-> [name |-> "none", secure |-> FALSE, kind |-> "none"],buf |-> [7fe7804a1000 |-> [owner |-> "cache", prot |-> 5], 7fe78048d000 |-> [owner |-> "cache", prot |-> 5], 7fe780479000 |-> [owner |-> "securevm", prot |-> 5]],l |-> 100]),
    ([cur |-> [name |-> "Other", secure |-> FALSE, kind |-> "other"],buf |-> [7fe7804a1000 |-> [owner |-> "cache", prot |-> 5], 7fe78048d000 |-> [owner |-> "cache", prot |-> 5], 7fe780479000 |-> [owner |-> "securevm", prot |-> 5]],l |-> 101]),
    ([cur |-> [name |-> "none", secure |-> FALSE, kind |-> "none"],buf |-> [7fe7804a1000 |-> [owner |-> "cache", prot |-> 5], 7fe78048d000 |-> [owner |-> "cache", prot |-> 5], 7fe780479000 |-> [owner |-> "securevm", prot |-> 5]],l |-> 102]),
    ([cur |-> [name |-> "Other", secure |-> FALSE, kind |-> "other"],buf |-> [7fe7804a1000 |-> [owner |-> "cache", prot |-> 5], 7fe78048d000 |-> [owner |-> "cache", prot |-> 5], 7fe780479000 |-> [owner |-> "securevm", prot |-> 5]],l |-> 103]),
    ([cur |-> [name |-> "none", secure |-> FALSE, kind |-> "none"],buf |-> [7fe7804a1000 |-> [owner |-> "cache", prot |-> 5], 7fe78048d000 |-> [owner |-> "cache", prot |-> 5], 7fe780479000 |-> [owner |-> "securevm", prot |-> 5]],l |-> 104]),
    ([cur |-> [name |-> "HashFirst", secure |-> TRUE, kind |-> "vm"],buf |-> [7fe7804a1000 |-> [owner |-> "cache", prot |-> 5], 7fe78048d000 |-> [owner |-> "cache", prot |-> 5], 7fe780479000 |-> [owner |-> "securevm", prot |-> 5]],l |-> 105]),
    ([cur |-> [name |-> "none", secure |-> FALSE, kind |-> "none"],buf |-> [7fe7804a1000 |-> [owner |-> "cache", prot |-> 5], 7fe78048d000 |-> [owner |-> "cache", prot |-> 5], 7fe780479000 |-> [owner |-> "securevm", prot |-> 5]],l |-> 106]),
    ([cur |-> [name |-> "Other", secure |-> FALSE, kind |-> "other"],buf |-> [7fe7804a1000 |-> [owner |-> "cache", prot |-> 5], 7fe78048d000 |-> [owner |-> "cache", prot |-> 5], 7fe780479000 |-> [owner |-> "securevm", prot |-> 5]],l |-> 107]),
    ([cur |-> [name |-> "none", secure |-> FALSE, kind |-> "none"],buf |-> [7fe7804a1000 |-> [owner |-> "cache", prot |-> 5], 7fe78048d000 |-> [owner |-> "cache", prot |-> 5], 7fe780479000 |-> [owner |-> "securevm", prot |-> 5]],l |-> 108]),
    ([cur |-> [name |-> "Other", secure |-> FALSE, kind |-> "other"],buf |-> [7fe7804a1000 |-> [owner |-> "cache", prot |-> 5], 7fe78048d000 |-> [owner |-> "cache", prot |-> 5], 7fe780479000 |-> [owner |-> "securevm", prot |-> 5]],l |-> 109]),
    ([cur |-> [name |-> "none", secure |-> FALSE, kind |-> "none"],buf |-> [7fe7804a1000 |-> [owner |-> "cache", prot |-> 5], 7fe78048d000 |-> [owner |-> "cache", prot |-> 5], 7fe780479000 |-> [owner |-> "securevm", prot |-> 5]],l |-> 110]),
    ([cur |-> [name |-> "HashLast", secure |-> TRUE, kind |-> "vm"],buf |-> [7fe7804a1000 |-> [owner |-> "cache", prot |-> 5], 7fe78048d000 |-> [owner |-> "cache", prot |-> 5], 7fe780479000 |-> [owner |-> "securevm", prot |-> 5]],l |-> 111]),
    ([cur |-> [name |-> "HashLast", secure |-> TRUE, kind |-> "vm"],buf |-> [7fe7804a1000 |-> [owner |-> "cache", prot |-> 5], 7fe78048d000 |-> [owner |-> "cache", prot |-> 5], 7fe780479000 |-> [owner |-> "securevm", prot |-> 3]],l |-> 112]),
    ([cur |-> [name |-> "HashLast", secure |-> TRUE, kind |-> "vm"],buf |-> [7fe7804a1000 |-> [owner |-> "cache", prot |-> 5], 7fe78048d000 |-> [owner |-> "cache", prot |-> 5], 7fe780479000 |-> [owner |-> "securevm", prot |-> 5]],l |-> 113]),
    ([cur |-> [name |-> "HashLast", secure |-> TRUE, kind |-> "vm"],buf |-> [7fe7804a1000 |-> [owner |-> "cache", prot |-> 5], 7fe78048d000 |-> [owner |-> "cache", prot |-> 5], 7fe780479000 |-> [owner |-> "securevm", prot |-> 3]],l |-> 114]),
    ([cur |-> [name |-> "HashLast", secure |-> TRUE, kind |-> "vm"],buf |-> [7fe7804a1000 |-> [owner |-> "cache", prot |-> 5], 7fe78048d000 |-> [owner |-> "cache", prot |-> 5], 7fe780479000 |-> [owner |-> "securevm", prot |-> 5]],l |-> 115]),
    ([cur |-> [name |-> "HashLast", secure |-> TRUE, kind |-> "vm"],buf |-> [7fe7804a1000 |-> [owner |-> "cache", prot |-> 5], 7fe78048d000 |-> [owner |-> "cache", prot |-> 5], 7fe780479000 |-> [owner |-> "securevm", prot |-> 3]],l |-> 116]),
    ([cur |-> [name |-> "HashLast", secure |-> TRUE, kind |-> "vm"],buf |-> [7fe7804a1000 |-> [owner |-> "cache", prot |-> 5], 7fe78048d000 |-> [owner |-> "cache", prot |-> 5], 7fe780479000 |-> [owner |-> "securevm", prot |-> 5]],l |-> 117]),
    ([cur |-> [name |-> "HashLast", secure |-> TRUE, kind |-> "vm"],buf |-> [7fe7804a1000 |-> [owner |-> "cache", prot |-> 5], 7fe78048d000 |-> [owner |-> "cache", prot |-> 5], 7fe780479000 |-> [owner |-> "securevm", prot |-> 3]],l |-> 118]),
    ([cur |-> [name |-> "HashLast", secure |-> TRUE, kind |-> "vm"],buf |-> [7fe7804a1000 |-> [owner |-> "cache", prot |-> 5], 7fe78048d000 |-> [owner |-> "cache", prot |-> 5], 7fe780479000 |-> [owner |-> "securevm", prot |-> 5]],l |-> 119]),
    ([cur |-> [name |-> "HashLast", secure |-> TRUE, kind |-> "vm"],buf |-> [7fe7804a1000 |-> [owner |-> "cache", prot |-> 5], 7fe78048d000 |-> [owner |-> "cache", prot |-> 5], 7fe780479000 |-> [owner |-> "securevm", prot |-> 3]],l |-> 120]),
    ([cur |-> [name |-> "HashLast", secure |-> TRUE, kind |-> "vm"],buf |-> [7fe7804a1000 |-> [owner |-> "cache", prot |-> 5], 7fe78048d000 |-> [owner |-> "cache", prot |-> 5], 7fe780479000 |-> [owner |-> "securevm", prot |-> 5]],l |-> 121]),
    ([cur |-> [name |-> "HashLast", secure |-> TRUE, kind |-> "vm"],buf |-> [7fe7804a1000 |-> [owner |-> "cache", prot |-> 5], 7fe78048d000 |-> [owner |-> "cache", prot |-> 5], 7fe780479000 |-> [owner |-> "securevm", prot |-> 3]],l |-> 122]),
    ([cur |-> [name |-> "HashLast", secure |-> TRUE, kind |-> "vm"],buf |-> [7fe7804a1000 |-> [owner |-> "cache", prot |-> 5], 7fe78048d000 |-> [owner |-> "cache", prot |-> 5], 7fe780479000 |-> [owner |-> "securevm", prot |-> 5]],l |-> 123]),
    ([cur |-> [name |-> "HashLast", secure |-> TRUE, kind |-> "vm"],buf |-> [7fe7804a1000 |-> [owner |-> "cache", prot |-> 5], 7fe78048d000 |-> [owner |-> "cache", prot |-> 5], 7fe780479000 |-> [owner |-> "securevm", prot |-> 3]],l |-> 124]),
    ([cur |-> [name |-> "HashLast", secure |-> TRUE, kind |-> "vm"],buf |-> [7fe7804a1000 |-> [owner |-> "cache", prot |-> 5], 7fe78048d000 |-> [owner |-> "cache", prot |-> 5], 7fe780479000 |-> [owner |-> "securevm", prot |-> 5]],l |-> 125]),
    ([cur |-> [name |-> "HashLast", secure |-> TRUE, kind |-> "vm"],buf |-> [7fe7804a1000 |-> [owner |-> "cache", prot |-> 5], 7fe78048d000 |-> [owner |-> "cache", prot |-> 5], 7fe780479000 |-> [owner |-> "securevm", prot |-> 3]],l |-> 126]),
    ([cur |-> [name |-> "HashLast", secure |-> TRUE, kind |-> "vm"],buf |-> [7fe7804a1000 |-> [owner |-> "cache", prot |-> 5], 7fe78048d000 |-> [owner |-> "cache", prot |-> 5], 7fe780479000 |-> [owner |-> "securevm", prot |-> 5]],l |-> 127]),
    ([cur |-> [name |-> "none", secure |-> FALSE, kind |-> "none"],buf |-> [7fe7804a1000 |-> [owner |-> "cache", prot |-> 5], 7fe78048d000 |-> [owner |-> "cache", prot |-> 5], 7fe780479000 |-> [owner |-> "securevm", prot |-> 5]],l |-> 128]),
    ([cur |-> [name |-> "none", secure |-> FALSE, kind |-> "none"],buf |-> <<>>,l |-> 129]),
    ([cur |-> [name |-> "AllocCache", secure |-> FALSE, kind |-> "cache"],buf |-> <<>>,l |-> 130]),
    ([cur |-> [name |-> "AllocCache", secure |-> FALSE, kind |-> "cache"],buf |-> [7fb2976ad000 |-> [owner |-> "cache", prot |-> 3]],l |-> 131]),
    ([cur |-> [name |-> "none", secure |-> FALSE, kind |-> "none"],buf |-> [7fb2976ad000 |-> [owner |-> "cache", prot |-> 3]],l |-> 132]),
    ([cur |-> [name |-> "InitCache", secure |-> FALSE, kind |-> "cache"],buf |-> [7fb2976ad000 |-> [owner |-> "cache", prot |-> 3]],l |-> 133]),
    ([cur |-> [name |-> "InitCache", secure |-> FALSE, kind |-> "cache"],buf |-> [7fb2976ad000 |-> [owner |-> "cache", prot |-> 3]],l |-> 134]),
    ([cur |-> [name |-> "InitCache", secure |-> FALSE, kind |-> "cache"],buf |-> [7fb2976ad000 |-> [owner |-> "cache", prot |-> 5]],l |-> 135]),
    ([cur |-> [name |-> "none", secure |-> FALSE, kind |-> "none"],buf |-> [7fb2976ad000 |-> [owner |-> "cache", prot |-> 5]],l |-> 136]),
    ([cur |-> [name |-> "AllocDataset", secure |-> FALSE, kind |-> "other"],buf |-> [7fb2976ad000 |-> [owner |-> "cache", prot |-> 5]],l |-> 137]),
    ([cur |-> [name |-> "none", secure |-> FALSE, kind |-> "none"],buf |-> [7fb2976ad000 |-> [owner |-> "cache", prot |-> 5]],l |-> 138]),
    ([cur |-> [name |-> "CreateVm", secure |-> TRUE, kind |-> "vm"],buf |-> [7fb2976ad000 |-> [owner |-> "cache", prot |-> 5]],l |-> 139]),
    ([cur |-> [name |-> "CreateVm", secure |-> TRUE, kind |-> "vm"],buf |-> [7fb2976ad000 |-> [owner |-> "cache", prot |-> 5], 7fb297685000 |-> [owner |-> "securevm", prot |-> 3]],l |-> 140]),
    ([cur |-> [name |-> "CreateVm", secure |-> TRUE, kind |-> "vm"],buf |-> [7fb2976ad000 |-> [owner |-> "cache", prot |-> 5], 7fb297685000 |-> [owner |-> "securevm", prot |-> 3]],l |-> 141]),
    ([cur |-> [name |-> "CreateVm", secure |-> TRUE, kind |-> "vm"],buf |-> [7fb2976ad000 |-> [owner |-> "cache", prot |-> 5], 7fb297685000 |-> [owner |-> "securevm", prot |-> 5]],l |-> 142]),
    ([cur |-> [name |-> "none", secure |-> FALSE, kind |-> "none"],buf |-> [7fb2976ad000 |-> [owner |-> "cache", prot |-> 5], 7fb297685000 |-> [owner |-> "securevm", prot |-> 5]],l |-> 143]),
    ([cur |-> [name |-> "Hash", secure |-> TRUE, kind |-> "vm"],buf |-> [7fb2976ad000 |-> [owner |-> "cache", prot |-> 5], 7fb297685000 |-> [owner |-> "securevm", prot |-> 5]],l |-> 144]),
    ([cur |-> [name |-> "Hash", secure |-> TRUE, kind |-> "vm"],buf |-> [7fb2976ad000 |-> [owner |-> "cache", prot |-> 5], 7fb297685000 |-> [owner |-> "securevm", prot |-> 3]],l |-> 145]),
    ([cur |-> [name |-> "Hash", secure |-> TRUE, kind |-> "vm"],buf |-> [7fb2976ad000 |-> [owner |-> "cache", prot |-> 5], 7fb297685000 |-> [owner |-> "securevm", prot |-> 5]],l |-> 146]),
    ([cur |-> [name |-> "Hash", secure |-> TRUE, kind |-> "vm"],buf |-> [7fb2976ad000 |-> [owner |-> "cache", prot |-> 5], 7fb297685000 |-> [owner |-> "securevm", prot |-> 3]],l |-> 147]),
    ([cur |-> [name |-> "Hash", secure |-> TRUE, kind |-> "vm"],buf |-> [7fb2976ad000 |-> [owner |-> "cache", prot |-> 5], 7fb297685000 |-> [owner |-> "securevm", prot |-> 5]],l |-> 148]),
    ([cur |-> [name |-> "Hash", secure |-> TRUE, kind |-> "vm"],buf |-> [7fb2976ad000 |-> [owner |-> "cache", prot |-> 5], 7fb297685000 |-> [owner |-> "securevm", prot |-> 3]],l |-> 149]),
    ([cur |-> [name |-> "Hash", secure |-> TRUE, kind |-> "vm"],buf |-> [7fb2976ad000 |-> [owner |-> "cache", prot |-> 5], 7fb297685000 |-> [owner |-> "securevm", prot |-> 5]],l |-> 150]),
    ([cur |-> [name |-> "Hash", secure |-> TRUE, kind |-> "vm"],buf |-> [7fb2976ad000 |-> [owner |-> "cache", prot |-> 5], 7fb297685000 |-> [owner |-> "securevm", prot |-> 3]],l |-> 151]),
    ([cur |-> [name |-> "Hash", secure |-> TRUE, kind |-> "vm"],buf |-> [7fb2976ad000 |-> [owner |-> "cache", prot |-> 5], 7fb297685000 |-> [owner |-> "securevm", prot |-> 5]],l |-> 152]),
    ([cur |-> [name |-> "Hash", secure |-> TRUE, kind |-> "vm"],buf |-> [7fb2976ad000 |-> [owner |-> "cache", prot |-> 5], 7fb297685000 |-> [owner |-> "securevm", prot |-> 3]],l |-> 153]),
    ([cur |-> [name |-> "Hash", secure |-> TRUE, kind |-> "vm"],buf |-> [7fb2976ad000 |-> [owner |-> "cache", prot |-> 5], 7fb297685000 |-> [owner |-> "securevm", prot |-> 5]],l |-> 154]),
    ([cur |-> [name |-> "Hash", secure |-> TRUE, kind |-> "vm"],buf |-> [7fb2976ad000 |-> [owner |-> "cache", prot |-> 5], 7fb297685000 |-> [owner |-> "securevm", prot |-> 3]],l |-> 155]),
    ([cur |-> [name |-> "Hash", secure |-> TRUE, kind |-> "vm"],buf |-> [7fb2976ad000 |-> [owner |-> "cache", prot |-> 5], 7fb297685000 |-> [owner |-> "securevm", prot |-> 5]],l |-> 156]),
    ([cur |-> [name |-> "Hash", secure |-> TRUE, kind |-> "vm"],buf |-> [7fb2976ad000 |-> [owner |-> "cache", prot |-> 5], 7fb297685000 |-> [owner |-> "securevm", prot |-> 3]],l |-> 157]),
    ([cur |-> [name |-> "Hash", secure |-> TRUE, kind |-> "vm"],buf |-> [7fb2976ad000 |-> [owner |-> "cache", prot |-> 5], 7fb297685000 |-> [owner |-> "securevm", prot |-> 5]],l |-> 158]),
    ([cur |-> [name |-> "Hash", secure |-> TRUE, kind |-> "vm"],buf |-> [7fb2976ad000 |-> [owner |-> "cache", prot |-> 5], 7fb297685000 |-> [owner |-> "securevm", prot |-> 3]],l |-> 159]),
    ([cur |-> [name |-> "Hash", secure |-> TRUE, kind |-> "vm"],buf |-> [7fb2976ad000 |-> [owner |-> "cache", prot |-> 5], 7fb297685000 |-> [owner |-> "securevm", prot |-> 5]],l |-> 160]),
    ([cur |-> [name |-> "none", secure |-> FALSE, kind |-> "none"],buf |-> [7fb2976ad000 |-> [owner |-> "cache", prot |-> 5], 7fb297685000 |-> [owner |-> "securevm", prot |-> 5]],l |-> 161]),
    ([cur |-> [name |-> "DestroyVm", secure |-> TRUE, kind |-> "vm"],buf |-> [7fb2976ad000 |-> [owner |-> "cache", prot |-> 5], 7fb297685000 |-> [owner |-> "securevm", prot |-> 5]],l |-> 162]),
    ([cur |-> [name |-> "DestroyVm", secure |-> TRUE, kind |-> "vm"],buf |-> [7fb2976ad000 |-> [owner |-> "cache", prot |-> 5]],l |-> 163]),
    ([cur |-> [name |-> "none", secure |-> FALSE, kind |-> "none"],buf |-> [7fb2976ad000 |-> [owner |-> "cache", prot |-> 5]],l |-> 164]),
    ([cur |-> [name |-> "CreateVm", secure |-> TRUE, kind |-> "vm"],buf |-> [7fb2976ad000 |-> [owner |-> "cache", prot |-> 5]],l |-> 165]),
    ([cur |-> [name |-> "CreateVm", secure |-> TRUE, kind |-> "vm"],buf |-> [7fb2976ad000 |-> [owner |-> "cache", prot |-> 5], 7fb297685000 |-> [owner |-> "securevm", prot |-> 3]],l |-> 166]),
    ([cur |-> [name |-> "CreateVm", secure |-> TRUE, kind |-> "vm"],buf |-> [7fb2976ad000 |-> [owner |-> "cache", prot |-> 5], 7fb297685000 |-> [owner |-> "securevm", prot |-> 7]],l |-> 167])
    >>
----


=============================================================================

---- CONFIG TraceProt_TTrace_1790553713 ----

INVARIANT
    _inv

CHECK_DEADLOCK
    \* CHECK_DEADLOCK off because of PROPERTY or INVARIANT above.
    FALSE

INIT
    _init

NEXT
    _next

CONSTANT
    _TETrace <- _trace

ALIAS
    _expression
=============================================================================
\* Generated on Mon Sep 28 00:01:56 UTC 2026