SPECIFICATION Spec
CONSTANT CheckGenerator = TRUE
POSTCONDITION Accepted
CHECK_DEADLOCK FALSE
