SPECIFICATION Spec
CONSTANTS
  CheckGenerator = TRUE
  CheckRepr = FALSE
POSTCONDITION Accepted
CHECK_DEADLOCK FALSE
