SPECIFICATION Spec
CONSTANT CheckGenerator = FALSE
POSTCONDITION Accepted
CHECK_DEADLOCK FALSE
