SPECIFICATION Spec
CONSTANTS
  CheckGenerator = FALSE
  CheckRepr = TRUE
POSTCONDITION Accepted
CHECK_DEADLOCK FALSE
