-------------------------------- MODULE TraceVm --------------------------------
(***************************************************************************)
(* Trace validation for C04 / C06 / C07 (and C17 with the portable build). *)
(* `run` lines: one execution of a program buffer by one engine            *)
(* (interpreter or JIT, software or hardware AES) for n loop iterations    *)
(* over a pattern scratchpad and a pattern dataset, with the resulting     *)
(* 256-byte register file, rounding mode, the exact list of scratchpad     *)
(* words that no longer hold the pattern, the number of bytecode           *)
(* instructions the interpreter executed, and whether an access outside    *)
(* scratchpad / dataset faulted.  Lines of one program are consecutive;    *)
(* the first carries the program.  For "oracle" runs the specification     *)
(* executes the program itself (RxVm!RunVm) and every engine must          *)
(* reproduce its result; for "diff" runs (full 2048 iterations) all        *)
(* engines must agree with the first one.                                  *)
(***************************************************************************)
EXTENDS RxVm, Json, IOUtils

TraceLog == ndJsonDeserialize(IOEnv.TRACE)
VARIABLES l, ref,     \* ref: result all engines of the current program must reproduce
          lenmax     \* [v2 |-> longest x86 encoding of one RandomX instruction] learnt from `codelen` lines (code-buffer budget)
Ev == TraceLog[l]

PatK == <<31765, 32586, 31161, 40503>>      \* 0x9E3779B97F4A7C15
PatK2 == <<64915, 26201, 65208, 55016>>     \* 0xD6E8FEB86659FD93
BaseSp(seed) == [addr \in 0..2097151 |-> WXor(WMul(WFromInt((addr \div 8) + 1), PatK), seed)]
DItem(seed) == [i \in 0..34078718 |-> [k \in 1..8 |-> WXor(WMul(WFromInt(8 * i + k), PatK2), seed)]]

\* register file as 32 words: r0-r7, f0-f3 (lo,hi), e0-e3, a0-a3
RegWords(st) == st.r \o FoldLeft(LAMBDA acc, g : acc \o <<g[1][1], g[1][2], g[2][1], g[2][2], g[3][1], g[3][2], g[4][1], g[4][2]>>,
                                 <<>>, <<st.f, st.e, st.a>>)

Expected(ev) ==
  LET m == RunVm(ev.q, ev.words, ev.n, ev.fprc0, BaseSp(ev.patS), DItem(ev.patD), ev.v2)
      base == BaseSp(ev.patS)
  IN  [reg |-> RegWords(m.st), fprc |-> m.st.fprc, count |-> m.count, whash |-> <<>>, nwrites |-> 0,
       writes |-> {<<a, m.sp[a]>> : a \in {x \in DOMAIN m.sp : m.sp[x] # base[x]}}]

Observed(ev) == [reg |-> LimbsToWords(ev.reg), fprc |-> ev.fprc, writes |-> ToSet(ev.writes), nwrites |-> ev.nwrites]

Matches(ev, want) ==
  /\ ~ev.oob                                                     \* C06: no access outside scratchpad / dataset
  /\ [i \in 1..32 |-> Observed(ev).reg[i]] = [i \in 1..32 |-> want.reg[i]]
  /\ ev.fprc = want.fprc
  \* the whole scratchpad: the list of changed words (complete when short) and a hash over all of them
  /\ IF want.whash = <<>> THEN ToSet(ev.writes) = want.writes /\ ev.nwrites = Cardinality(want.writes)
     ELSE ev.whash = want.whash /\ ev.nwrites = want.nwrites /\ ToSet(ev.writes) = want.writes
  /\ (ev.engine = "interp" /\ want.count >= 0 => ev.count = want.count)
  \* C07: at most three times the program length per iteration
  /\ (ev.engine = "interp" => ev.count <= 3 * (IF ev.v2 THEN 384 ELSE 256) * ev.n)

First == Ev.first
\* the interpreter's decoded program: every CBRANCH jumps to the instruction after the last writer of its register
TargetsOk(ev) ==
  \* (one reference to the decoded program: a LET body referenced inside a function constructor would be re-evaluated per element)
  LET want == FoldLeft(LAMBDA acc, d : Append(acc, IF d.k = "CBRANCH" THEN d.target ELSE -2), <<>>, DecodeProgram(ev.words))
  IN  /\ ev.targets = want
      \* the targets the x86 JIT encoded (when the harness could read them back from the code buffer)
      /\ ("jtargets" \in DOMAIN ev /\ ev.jtargets # <<>>) => ev.jtargets = want
TOracleFirst == /\ l <= Len(TraceLog) /\ Ev.e = "run" /\ Ev.tag = "oracle" /\ First
                /\ TargetsOk(Ev)
                /\ LET want == Expected(Ev) IN Matches(Ev, want) /\ ref' = want
                /\ l' = l + 1 /\ UNCHANGED lenmax
TDiffFirst == /\ l <= Len(TraceLog) /\ Ev.e = "run" /\ Ev.tag = "diff" /\ First
              /\ ~Ev.oob
              /\ ref' = [reg |-> LimbsToWords(Ev.reg), fprc |-> Ev.fprc, count |-> IF Ev.engine = "interp" THEN Ev.count ELSE -1,
                         writes |-> ToSet(Ev.writes), whash |-> Ev.whash, nwrites |-> Ev.nwrites]
              /\ Ev.count <= 3 * (IF Ev.v2 THEN 384 ELSE 256) * Ev.n
              /\ l' = l + 1 /\ UNCHANGED lenmax
TFollow == /\ l <= Len(TraceLog) /\ Ev.e = "run" /\ ~First
           /\ Matches(Ev, ref) /\ UNCHANGED ref
           /\ l' = l + 1 /\ UNCHANGED lenmax
\* code-buffer layout (C06): a generated program ends before the SuperscalarHash area, leaves it intact,
\* and the SuperscalarHash code itself ends inside the buffer
TCodegen == /\ l <= Len(TraceLog) /\ Ev.e = "codegen"
            /\ Ev.codePos > 0 /\ Ev.codePos <= Ev.limit /\ Ev.sshChanged = 0
            /\ Ev.sshPos > Ev.limit /\ Ev.sshPos <= Ev.codeSize
            /\ l' = l + 1 /\ UNCHANGED <<ref, lenmax>>
(***************************************************************************)
(* Code-buffer budget FOR EVERY PROGRAM (C06).  The x86 JIT emits the code  *)
(* of instruction i from its 8 bytes alone (no alignment, no peephole), so *)
(* the end of a generated program is base(flags) + the sum of the          *)
(* instruction lengths.  `codelen` lines carry, per opcode byte, the       *)
(* longest encoding over ALL dst x src x mod bytes and the immediate       *)
(* classes; `codebase` lines the fixed part measured for one flag set.     *)
(* Then base + size * max length <= start of the SuperscalarHash area      *)
(* bounds every program, not only the recorded ones; the library's own     *)
(* constant MaxRandomXInstrCodeSize = 32 must dominate every length.       *)
(***************************************************************************)
MaxOf(t) == FoldLeft(LAMBDA a, x : IF x[2] > a THEN x[2] ELSE a, 0, t)
TCodeLen == /\ l <= Len(TraceLog) /\ Ev.e = "codelen"
            /\ Len(Ev.lens) = 256 /\ \A i \in 1..256 : Ev.lens[i][1] = i - 1 /\ Ev.lens[i][2] >= 1 /\ Ev.lens[i][2] <= 32
            /\ Ev.combos = 256 * 8 * 8 * 256                        \* every opcode x dst x src x mod byte was encoded
            /\ lenmax' = [lenmax EXCEPT ![IF Ev.v2 THEN 2 ELSE 1] = MaxOf(Ev.lens)]
            /\ l' = l + 1 /\ UNCHANGED ref
TCodeBase == /\ l <= Len(TraceLog) /\ Ev.e = "codebase"
             /\ lenmax[IF Ev.v2 THEN 2 ELSE 1] > 0
             /\ Ev.base > 0 /\ Ev.base + Ev.size * lenmax[IF Ev.v2 THEN 2 ELSE 1] <= Ev.limit
             /\ Ev.size = (IF Ev.v2 THEN 384 ELSE 256)
             /\ l' = l + 1 /\ UNCHANGED <<ref, lenmax>>
Init == l = 1 /\ ref = [reg |-> <<>>, fprc |-> 0, count |-> 0, writes |-> {}, whash |-> <<>>, nwrites |-> 0] /\ lenmax = <<0, 0>>
\* a program decoded through the per-instruction interface (possibly interleaved with the decoding of another program by a second decoder object)
TDecode == /\ l <= Len(TraceLog) /\ Ev.e = "decode"
           /\ Ev.targets = FoldLeft(LAMBDA acc, d : Append(acc, IF d.k = "CBRANCH" THEN d.target ELSE -2), <<>>, DecodeProgram(Ev.words))
           /\ l' = l + 1 /\ UNCHANGED <<ref, lenmax>>
Next == TOracleFirst \/ TDiffFirst \/ TFollow \/ TCodegen \/ TCodeLen \/ TCodeBase \/ TDecode
Spec == Init /\ [][Next]_<<l, ref, lenmax>>
Accepted == TLCGet("stats").diameter - 1 = Len(TraceLog)
=============================================================================
