-------------------------------- MODULE W64 --------------------------------
(***************************************************************************)
(* 64-bit (and 32/128-bit) machine words for TLC, whose integers are       *)
(* 32-bit.  A 64-bit word is a tuple of four 16-bit limbs, least           *)
(* significant first:  w = <<l0,l1,l2,l3>>,  value = SUM li * 2^(16 i).    *)
(* Bytes are integers 0..255; byte strings are sequences of bytes.         *)
(* Everything here is plain TLA+ (Bitwise's &,|,^^ have Java overrides in  *)
(* the CommunityModules, exactly like TLC's own standard modules).         *)
(***************************************************************************)
EXTENDS Integers, Sequences, SequencesExt, Bitwise, TLC

M8  == 256
M16 == 65536

W0 == <<0,0,0,0>>
W1 == <<1,0,0,0>>
WMax == <<65535,65535,65535,65535>>

IsW(w) == /\ Len(w) = 4 /\ \A i \in 1..4 : w[i] \in 0..65535

\* small non-negative integer (< 2^31) -> word
WFromInt(n) == <<n % M16, (n \div M16) % M16, 0, 0>>
\* word known to be < 2^31 -> integer
WToInt(w) == w[1] + M16 * w[2]

\* 32-bit value as two limbs <<lo,hi>>; sign-extend to 64 bits
SignExt32(p) == IF p[2] >= 32768 THEN <<p[1], p[2], 65535, 65535>>
                                 ELSE <<p[1], p[2], 0, 0>>
ZeroExt32(p) == <<p[1], p[2], 0, 0>>
Lo32(w) == <<w[1], w[2]>>
Hi32(w) == <<w[3], w[4]>>

WXor(a, b) == <<a[1] ^^ b[1], a[2] ^^ b[2], a[3] ^^ b[3], a[4] ^^ b[4]>>
WAnd(a, b) == <<a[1] & b[1], a[2] & b[2], a[3] & b[3], a[4] & b[4]>>
WOr(a, b)  == <<a[1] | b[1], a[2] | b[2], a[3] | b[3], a[4] | b[4]>>
WNot(a)    == <<65535 - a[1], 65535 - a[2], 65535 - a[3], 65535 - a[4]>>

WAdd(a, b) ==
  LET s1 == a[1] + b[1]
      s2 == a[2] + b[2] + (s1 \div M16)
      s3 == a[3] + b[3] + (s2 \div M16)
      s4 == a[4] + b[4] + (s3 \div M16)
  IN  <<s1 % M16, s2 % M16, s3 % M16, s4 % M16>>

\* carry out of a 64-bit addition (0 or 1)
WAddCarry(a, b) ==
  LET s1 == a[1] + b[1]
      s2 == a[2] + b[2] + (s1 \div M16)
      s3 == a[3] + b[3] + (s2 \div M16)
      s4 == a[4] + b[4] + (s3 \div M16)
  IN  s4 \div M16

WNeg(a) == WAdd(WNot(a), W1)
WSub(a, b) == WAdd(a, WNeg(b))

\* unsigned comparison
WLt(a, b) ==
  \/ a[4] < b[4]
  \/ a[4] = b[4] /\ a[3] < b[3]
  \/ a[4] = b[4] /\ a[3] = b[3] /\ a[2] < b[2]
  \/ a[4] = b[4] /\ a[3] = b[3] /\ a[2] = b[2] /\ a[1] < b[1]
WLe(a, b) == a = b \/ WLt(a, b)
WIsNeg(a) == a[4] >= 32768

Pow2(n) == 2^n

\* rotate right by n in 0..63
WRotR(a, n) ==
  LET k == n \div 16
      r == n % 16
      L(i) == a[((i - 1 + k) % 4) + 1]          \* limb i after limb rotation
      p == Pow2(r)
      q == Pow2(16 - r)
      Mix(x, y) == (x \div p) + (y % p) * q       \* low from x, high bits from next limb y
  IN  IF r = 0 THEN <<L(1), L(2), L(3), L(4)>>
      ELSE <<Mix(L(1), L(2)), Mix(L(2), L(3)), Mix(L(3), L(4)), Mix(L(4), L(1))>>
WRotL(a, n) == WRotR(a, (64 - (n % 64)) % 64)

\* logical shifts by n in 0..63
WShr(a, n) ==
  LET k == n \div 16
      r == n % 16
      L(i) == IF i + k <= 4 THEN a[i + k] ELSE 0
      p == Pow2(r)
      q == Pow2(16 - r)
      Mix(x, y) == (x \div p) + (y % p) * q
  IN  IF r = 0 THEN <<L(1), L(2), L(3), L(4)>>
      ELSE <<Mix(L(1), L(2)), Mix(L(2), L(3)), Mix(L(3), L(4)), Mix(L(4), 0)>>
WShl(a, n) ==
  LET k == n \div 16
      r == n % 16
      L(i) == IF i - k >= 1 THEN a[i - k] ELSE 0
      p == Pow2(16 - r)                            \* bits that stay
      q == Pow2(r)
      Mix(x, y) == (x % p) * q + (y \div p)       \* x shifted up, top bits of lower limb y
  IN  IF r = 0 THEN <<L(1), L(2), L(3), L(4)>>
      ELSE <<Mix(L(1), 0), Mix(L(2), L(1)), Mix(L(3), L(2)), Mix(L(4), L(3))>>
\* arithmetic shift right
WSar(a, n) == IF WIsNeg(a) /\ n > 0
              THEN WOr(WShr(a, n), WShl(WMax, 64 - n))
              ELSE WShr(a, n)

\* bit i (0..63) of a
WBit(a, i) == (a[(i \div 16) + 1] \div Pow2(i % 16)) % 2

-----------------------------------------------------------------------------
\* bytes
WToBytes(w) == <<w[1] % M8, w[1] \div M8, w[2] % M8, w[2] \div M8,
                 w[3] % M8, w[3] \div M8, w[4] % M8, w[4] \div M8>>
\* word from 8 bytes of sequence s starting at (1-based) position p, little endian
WFromBytesAt(s, p) == <<s[p] + M8 * s[p+1], s[p+2] + M8 * s[p+3],
                        s[p+4] + M8 * s[p+5], s[p+6] + M8 * s[p+7]>>
WFromBytes(b) == WFromBytesAt(b, 1)

\* sequence of limbs (16-bit, LE) <-> sequence of bytes
LimbsToBytes(ls) == [i \in 1..(2 * Len(ls)) |->
                       IF i % 2 = 1 THEN ls[(i + 1) \div 2] % M8 ELSE ls[i \div 2] \div M8]
BytesToLimbs(bs) == [i \in 1..(Len(bs) \div 2) |-> bs[2*i - 1] + M8 * bs[2*i]]
\* words <-> limbs
LimbsToWords(ls) == [i \in 1..(Len(ls) \div 4) |-> <<ls[4*i-3], ls[4*i-2], ls[4*i-1], ls[4*i]>>]
WordsToLimbs(ws) == [i \in 1..(4 * Len(ws)) |-> ws[((i - 1) \div 4) + 1][((i - 1) % 4) + 1]]
BytesToWords(bs) == [i \in 1..(Len(bs) \div 8) |-> WFromBytesAt(bs, 8*i - 7)]
WordsToBytes(ws) == [i \in 1..(8 * Len(ws)) |-> WToBytes(ws[((i - 1) \div 8) + 1])[((i - 1) % 8) + 1]]

-----------------------------------------------------------------------------
\* multiplication through 8-bit digits (products < 2^16, column sums < 2^20)
Digits(w) == WToBytes(w)                          \* 8 digits base 256

(***************************************************************************)
(* NOTE on TLC: arguments of RECURSIVE operators are re-evaluated at every *)
(* use, so iteration is written with FoldLeft (Java-backed in the          *)
(* CommunityModules), whose accumulator is always a concrete value.        *)
(***************************************************************************)
Range0(n) == [i \in 1..n |-> i - 1]              \* <<0,1,...,n-1>>

\* column c (0..14) of the 8x8 digit product
LOCAL Col(x, y, c) ==
  LET lo == IF c > 7 THEN c - 7 ELSE 0
      hi == IF c > 7 THEN 7 ELSE c
  IN  FoldLeft(LAMBDA acc, i : IF i >= lo /\ i <= hi THEN acc + x[i + 1] * y[c - i + 1] ELSE acc,
               0, Range0(8))

\* full 128-bit product as 16 base-256 digits; accumulator <<digits, carry>>
LOCAL MulDigits(a, b) ==
  LET x == Digits(a)
      y == Digits(b)
  IN  FoldLeft(LAMBDA acc, c :
                 LET t == (IF c <= 14 THEN Col(x, y, c) ELSE 0) + acc[2]
                 IN  <<Append(acc[1], t % M8), t \div M8>>,
               <<<<>>, 0>>, Range0(16))[1]

WMulFull(a, b) == LET d == MulDigits(a, b)
                  IN  << WFromBytesAt(d, 1), WFromBytesAt(d, 9) >>     \* <<lo, hi>>
WMul(a, b)   == WMulFull(a, b)[1]
WMulH(a, b)  == WMulFull(a, b)[2]
\* signed high multiplication
WSMulH(a, b) ==
  LET h == WMulH(a, b)
      h1 == IF WIsNeg(a) THEN WSub(h, b) ELSE h
  IN  IF WIsNeg(b) THEN WSub(h1, a) ELSE h1

=============================================================================
