package tlc2.module;

import java.math.BigDecimal;
import tlc2.value.impl.IntValue;
import tlc2.value.impl.StringValue;
import tlc2.value.impl.TupleValue;
import tlc2.value.impl.Value;

/**
 * Java evaluation of the operator RxPrim!FpOp (IEEE-754 binary64 primitive operations under the four
 * rounding modes with flush-to-zero / denormals-are-zero), the only part of the RandomX
 * specification TLC cannot evaluate itself (no reals, 32-bit integers).  Everything
 * RandomX-specific (operands, masks, lanes, rounding-mode selection) stays in TLA+.
 *
 * Method: the round-to-nearest result comes from Java's (strict IEEE) double arithmetic; the sign
 * of the rounding error is obtained exactly with BigDecimal (a+b, a-b, a*b exactly; for a/b the
 * sign of a - q*b; for sqrt the sign of a - q*q) and the directed-rounding result is the
 * neighbouring double on the proper side.  64-bit patterns travel as four 16-bit limbs.
 */
public class RxPrim {

    private static long bits(Value v) {
        TupleValue t = (TupleValue) v.toTuple();
        long r = 0;
        for (int i = 3; i >= 0; i--) r = (r << 16) | (((IntValue) t.elems[i]).val & 0xFFFFL);
        return r;
    }

    private static Value limbs(long b) {
        Value[] e = new Value[4];
        for (int i = 0; i < 4; i++) e[i] = IntValue.gen((int) ((b >>> (16 * i)) & 0xFFFF));
        return new TupleValue(e);
    }

    private static boolean subnormal(double d) { return d != 0.0 && Math.abs(d) < Double.MIN_NORMAL; }

    private static double daz(double d) { return subnormal(d) ? Math.copySign(0.0, d) : d; }

    /** result of rounding `exact` (known only through sign(exact - rn)) in mode rc; rn = nearest */
    private static double directed(double rn, int err, int rc) {
        // err = sign(exact - rn)
        if (Double.isNaN(rn)) return rn;
        if (Double.isInfinite(rn)) {
            // overflow in round-to-nearest: directed modes may stop at the largest finite value
            if (err == 0) return rn; // exact infinity (operand was infinite / division by zero)
            boolean pos = rn > 0;
            if (rc == 3 || (rc == 1 && pos) || (rc == 2 && !pos)) return pos ? Double.MAX_VALUE : -Double.MAX_VALUE;
            return rn;
        }
        switch (rc) {
            case 1: return err < 0 ? Math.nextDown(rn) : rn;               // toward -inf
            case 2: return err > 0 ? Math.nextUp(rn) : rn;                 // toward +inf
            case 3:                                                        // toward zero
                if (rn > 0 || (rn == 0 && err > 0)) return err < 0 ? Math.nextDown(rn) : rn;
                if (rn < 0 || (rn == 0 && err < 0)) return err > 0 ? Math.nextUp(rn) : rn;
                return rn;
            default: return rn;
        }
    }

    private static double fix(double r, int rc) {
        // flush-to-zero on results
        if (subnormal(r)) return Math.copySign(0.0, r);
        return r;
    }

    public static Value FpOp(final Value opv, final Value rcv, final Value xv, final Value yv) {
        final String op = ((StringValue) opv).val.toString();
        final int rc = ((IntValue) rcv).val;
        if (op.equals("cvt")) { // signed 32-bit integer (low two limbs) to double: exact
            long b = bits(xv);
            int n = (int) (b & 0xFFFFFFFFL);
            return limbs(Double.doubleToRawLongBits((double) n));
        }
        double a = daz(Double.longBitsToDouble(bits(xv)));
        double b = daz(Double.longBitsToDouble(bits(yv)));
        double rn;
        int err = 0;
        boolean finiteOps = !Double.isInfinite(a) && !Double.isNaN(a) && !Double.isInfinite(b) && !Double.isNaN(b);
        if (op.equals("add") || op.equals("sub")) {
            double bb = op.equals("sub") ? -b : b;
            rn = a + bb;
            if (finiteOps) {
                BigDecimal ex = new BigDecimal(a).add(new BigDecimal(bb));
                if (Double.isInfinite(rn)) err = ex.signum();
                else err = ex.compareTo(new BigDecimal(rn));
                if (ex.signum() == 0 && (a != 0.0 || bb != 0.0)) {
                    // exact cancellation: +0 in all modes except toward -inf
                    return limbs(Double.doubleToRawLongBits(rc == 1 ? -0.0 : 0.0));
                }
                if (a == 0.0 && bb == 0.0) { // signed zeros
                    boolean neg = (Double.doubleToRawLongBits(a) < 0) && (Double.doubleToRawLongBits(bb) < 0);
                    boolean mixed = (Double.doubleToRawLongBits(a) < 0) != (Double.doubleToRawLongBits(bb) < 0);
                    return limbs(Double.doubleToRawLongBits(mixed ? (rc == 1 ? -0.0 : 0.0) : (neg ? -0.0 : 0.0)));
                }
            }
        } else if (op.equals("mul")) {
            rn = a * b;
            if (finiteOps && a != 0.0 && b != 0.0) {
                BigDecimal ex = new BigDecimal(a).multiply(new BigDecimal(b));
                if (Double.isInfinite(rn)) err = ex.signum();
                else err = ex.compareTo(new BigDecimal(rn));
                if (rn == 0.0 || subnormal(rn)) { // underflow: flushed to zero (FTZ), directed modes do not matter after the flush
                    return limbs(Double.doubleToRawLongBits(Math.copySign(0.0, ex.signum() < 0 ? -1.0 : 1.0)));
                }
            }
        } else if (op.equals("div")) {
            rn = a / b;
            if (finiteOps && a != 0.0 && b != 0.0) {
                if (Double.isInfinite(rn)) err = (rn > 0) ? 1 : -1;   // finite quotient beyond the range... cannot be exact infinity
                else {
                    BigDecimal rem = new BigDecimal(a).subtract(new BigDecimal(rn).multiply(new BigDecimal(b)));
                    err = rem.signum() * (b > 0 ? 1 : -1);
                    if (rn == 0.0 || subnormal(rn)) {
                        boolean neg = (a < 0) != (b < 0);
                        return limbs(Double.doubleToRawLongBits(neg ? -0.0 : 0.0));
                    }
                }
                if (Double.isInfinite(rn)) { // overflowing finite quotient
                    return limbs(Double.doubleToRawLongBits(fix(directed(rn, err, rc), rc)));
                }
            }
        } else if (op.equals("sqrt")) {
            rn = Math.sqrt(a);
            if (!Double.isNaN(rn) && !Double.isInfinite(rn) && a > 0.0) {
                BigDecimal q = new BigDecimal(rn);
                err = new BigDecimal(a).compareTo(q.multiply(q));
            }
        } else {
            throw new RuntimeException("RxPrim!FpOp: unknown operation " + op);
        }
        double r = fix(directed(rn, err, rc), rc);
        long rb = Double.doubleToRawLongBits(r);
        if (Double.isNaN(r)) rb = 0xFFF8000000000000L; // x86 default NaN
        return limbs(rb);
    }
}
